"""Check skeleton: collects model-checking runs and validated traces, applies known findings,
writes evidence and replay files, prints VIOLATION / KNOWN-FINDING lines and decides the exit status."""
import hashlib
import json
import os
import tempfile
import random
import sys
import time
import traceback

from . import tlc

VERIF = tlc.VERIF
EVIDENCE = os.path.join(VERIF, "evidence")
if os.path.realpath(os.environ.get("J2M_REPO", "/repo")) != os.path.realpath("/repo"):
    # a run against a scratch tree (seeded change, mutant): its evidence is not evidence about /repo
    EVIDENCE = os.path.join(tempfile.gettempdir(), "j2m-evidence-scratch")
REPLAYS = os.path.join(VERIF, "replays")
KNOWN = os.path.join(VERIF, "known_findings.json")


def sha(obj):
    return hashlib.sha256(json.dumps(obj, sort_keys=True, default=str).encode()).hexdigest()[:12]


class Check:
    def __init__(self, pid, tier, seed=None):
        self.pid = pid
        self.tier = tier
        self.seed = int(os.environ.get("VERIF_SEED", "0") if seed is None else seed)
        self.rng = random.Random(self.seed * 1000003 + int(pid[1:]))
        self.t0 = time.time()
        self.states = 0
        self.transitions = 0
        self.mc_runs = []
        self.traces = 0
        self.trace_states = 0
        self.evaluations = 0
        self.nontrivial = set()
        self.samples = []
        self.violations = []       # (clause, replay path)
        self.known_hits = []
        self.drift = []
        self.inconclusive = []
        self.live_clauses = {}
        self.rules = []
        self.assumptions = []
        self.exhaustive_parts = []
        self.extra = {}
        self.known = [k for k in json.load(open(KNOWN))["findings"]] if os.path.exists(KNOWN) else []

    # ------------------------------------------------------------------ loop A
    def model_check(self, module, cfg_text, what, **kw):
        r = tlc.check_model(module, cfg_text, **kw)
        self.mc_runs.append({"module": module, "what": what, "distinct_states": r["distinct"],
                             "states_generated": r["generated"], "wall_s": round(r["wall"], 1), "ok": r["ok"]})
        self.states += r["distinct"]
        self.transitions += r["generated"]
        if not r["ok"]:
            # The model itself violates an invariant (or TLC failed): the model is out of date
            # w.r.t. a settled tree -- machinery failure, never a verdict about the code.
            raise tlc.MachineryError("model checking of %s (%s) did not succeed:\n%s" % (module, what, r.get("error")))
        return r

    # ------------------------------------------------------------------ loop C
    def validate(self, module, traces, inputs=None, shard=400, **kw):
        """traces: list of {"id", "events"}; inputs: {id: concrete replay data}.  Returns verdict map."""
        verdicts, stats = tlc.validate_traces(module, self.pid, traces, shard=shard, **kw)
        self.traces += len(traces)
        self.trace_states += stats["distinct"]
        by_id = {t["id"]: t for t in traces}
        for tid, why in stats.get("inconclusive", []):
            self.inconclusive.append({"trace": tid, "module": module, "why": why[:120], "input": (inputs or {}).get(tid)})
            print("NOTE inconclusive: TLC ran out of time/memory on trace %s (%s); no verdict for it" % (tid, module))
        self.traces -= len(stats.get("inconclusive", []))
        for tid, v in verdicts.items():
            self.evaluations += 1
            for c in v["live"]:
                self.live_clauses[c] = self.live_clauses.get(c, 0) + 1
            if v["live"]:
                self.nontrivial.add(sha(by_id[tid]["events"]))
            if v["drift"]:
                self.drift.append({"trace": tid, "event": v["drift"], "module": module})
            if v["verdict"] != "ok":
                self.report(v["verdict"], {"trace": by_id[tid], "input": (inputs or {}).get(tid), "module": module,
                                           "tlc_verdict": v})
        if len(self.samples) < 4 and traces:
            t = traces[len(traces) // 2]
            self.samples.append({"trace_id": t["id"], "module": module, "verdict": verdicts[t["id"]],
                                 "input": (inputs or {}).get(t["id"]),
                                 "first_event": _shorten(t["events"][0])})
        return verdicts

    # ------------------------------------------------------------------ verdicts
    def report(self, clause, case):
        """A failing clause of this property on a concrete case."""
        case = dict(case, property=self.pid, clause=clause)
        for k in self.known:
            if k.get("status", "known") == "known" and k["property"] == self.pid and _matches(k, clause, case):
                if k["id"] not in [h["id"] for h in self.known_hits]:
                    self.known_hits.append({"id": k["id"], "text": k["text"]})
                return
        os.makedirs(REPLAYS, exist_ok=True)
        path = os.path.join(REPLAYS, "%s-%s.json" % (self.pid, sha(case)))
        with open(path, "w") as f:
            json.dump(case, f, indent=1, default=str)
        self.violations.append((clause, path))

    # ------------------------------------------------------------------ evidence
    def finish(self):
        wall = time.time() - self.t0
        for h in self.known_hits:
            print("KNOWN-FINDING: property=%s %s" % (self.pid, h["text"]))
        seen = set()
        for clause, path in self.violations:
            if path in seen:
                continue
            seen.add(path)
            if len(seen) <= 20:
                print("VIOLATION property=%s replay=%s clause=%s" % (self.pid, path, clause))
        cov = {
            "states": max(self.states + self.trace_states, 1),
            "transitions": max(self.transitions, 1),
            "traces_validated_against_impl": self.traces,
            "samples": self.samples or [{"note": "no traces in this run"}],
            "evaluations": self.evaluations,
            "distinct_nontrivial": len(self.nontrivial),
            "rule": " | ".join(self.rules),
            "model_checking_runs": self.mc_runs,
            "model_states": self.states,
            "trace_validation_states": self.trace_states,
            "live_clause_counts": self.live_clauses,
            "spec_drift": {"count": len(self.drift), "samples": self.drift[:5]},
            "known_findings_hit": self.known_hits,
            "inconclusive_traces": self.inconclusive[:10],
            "exhaustive": bool(self.exhaustive_parts),
            "exhaustive_scope": "the bounded TLA+ instances listed in exhaustive_parts were enumerated completely by TLC on this run; "
                                "what was replayed on / recorded from the implementation is described in rule and may be a sample of them",
            "exhaustive_parts": self.exhaustive_parts,
            "tlc": "TLC2 (tla2tools 1.8.0), CommunityModules; traces validated by TLC, not by Python",
        }
        cov.update(self.extra)
        ev = {"property_id": self.pid, "tier": self.tier, "seed": self.seed, "level": "model_checking",
              "coverage": cov, "assumptions": self.assumptions, "wall_s": round(wall, 1),
              "violations": len(seen)}
        os.makedirs(EVIDENCE, exist_ok=True)
        with open(os.path.join(EVIDENCE, self.pid + ".json"), "w") as f:
            json.dump(ev, f, indent=1, default=str)
        if self.drift:
            print("NOTE drift: %d traces left the algorithm layer (no property clause failed); see evidence" % len(self.drift))
        print("%s %s: %d model states, %d traces validated, %d non-trivial, %d violations, %d known, %.0fs" % (
            self.pid, self.tier, self.states, self.traces, len(self.nontrivial), len(seen), len(self.known_hits), wall))
        return 1 if seen else 0


def _shorten(x, n=600):
    s = json.dumps(x, default=str)
    return x if len(s) <= n else s[:n] + "..."


def _matches(k, clause, case):
    """known_findings signature: clause prefix + python predicate over the replay record."""
    if not clause.startswith(k["clause"]):
        return False
    sig = k.get("signature")
    if not sig:
        return True
    try:
        return bool(eval(sig, {"case": case, "json": json}))
    except Exception:
        return False


def main(run):
    """run(pid, tier, replay) -> exit status.  Wraps machinery failures into exit 2."""
    import argparse
    ap = argparse.ArgumentParser()
    ap.add_argument("pid")
    ap.add_argument("--tier", default=os.environ.get("VERIF_TIER", "quick"), choices=["quick", "thorough"])
    ap.add_argument("--replay")
    a = ap.parse_args()
    try:
        sys.exit(run(a.pid, a.tier, a.replay))
    except tlc.MachineryError as e:
        print("MACHINERY-FAILURE %s: %s" % (a.pid, e))
        sys.exit(2)
    except Exception:
        traceback.print_exc()
        print("MACHINERY-FAILURE %s: harness exception" % a.pid)
        sys.exit(2)

"""Drivers for the registry stage (spec/Registry.tla, MC_Registry.tla, MC_Closure.tla, Trace_Registry.tla)."""
import itertools
import json

from . import tlc
from .project import Interner, val_node, type_node, make_env
from . import drive_infer as DI
from json_to_models.registry import (ModelRegistry, ModelCmp, ModelFieldsEquals, ModelFieldsNumberMatch,
                                     ModelFieldsPercentMatch)


def ixnum(ix):
    """'1A' -> '1', '1B' -> '2', ... '2A' -> '27' (decimal strings: Registry.tla's indices)"""
    return str((int(ix[:-1]) - 1) * 26 + (ord(ix[-1]) - 65) + 1)


class TableCmp(ModelCmp):
    """Comparator driven by an explicit table of similar key-set pairs (C05: all similarity graphs)."""

    def __init__(self, pairs):
        self.pairs = {frozenset((frozenset(a), frozenset(b))) for a, b in pairs}

    def cmp(self, fields_a, fields_b):
        return frozenset((frozenset(fields_a), frozenset(fields_b))) in self.pairs


def make_policy(spec):
    out = []
    for kind, num in spec:
        if kind == "exact":
            out.append(ModelFieldsEquals())
        elif kind == "percent":
            out.append(ModelFieldsPercentMatch(num / 100))
        elif kind == "number":
            out.append(ModelFieldsNumberMatch(num))
        elif kind == "table":
            out.append(TableCmp(num))
        else:
            raise ValueError(kind)
    return out


def project_type(t, I):
    n = type_node(t, I)
    return _renum(n)


def _renum(n):
    if n["k"] == "ptr":
        return dict(n, n=ixnum(n["n"]))
    return dict(n, xs=[_renum(x) for x in n["xs"]])


def project_graph(reg, I):
    models = []
    for ix, m in reg.models_map.items():
        inc = sorted({(ixnum(p.parent.index) if p.parent is not None else "", p.parent_field_name and I(p.parent_field_name) or "")
                      for p in m.pointers})
        models.append({"ix": ixnum(ix), "t": project_type(m.type, I), "inc": [list(x) for x in inc],
                       "name": m.name or ""})
    idx = reg._index
    return {"models": models, "next": (idx.i - 1) * 26 + (ord(idx.ch) - 65) + 1}


def policy_json(spec, reg_before=None, I=None):
    out = []
    for kind, num in spec:
        if kind == "table":
            # pairs of key sets -> pairs of model indices of the graph before merging
            pairs = []
            keysets = {frozenset(m.type.keys()): ixnum(ix) for ix, m in reg_before}
            for a, b in num:
                if frozenset(a) in keysets and frozenset(b) in keysets:
                    pairs.append([keysets[frozenset(a)], keysets[frozenset(b)]])
            out.append({"kind": "table", "num": 0, "pairs": pairs})
        else:
            out.append({"kind": kind, "num": int(num), "pairs": []})
    return out


def pipeline_events(roots, envspec, policy, I=None, reoptimize=True, compose=False):
    """roots: list of (name, samples).  Runs generate / process_meta_data / merge_models on the real code.

    Returns the event list of one pipeline (Begin, Root*, Register*, MergeModels, Reoptimize) + the registry."""
    I = I or Interner()
    gen, sreg = DI.make_generator(envspec)
    reg = ModelRegistry(*make_policy(policy))
    evs = [{"ev": "Begin"}]
    ptrs = []
    failed = ""
    for name, samples in roots:
        samples = json.loads(json.dumps(samples))
        evs.append({"ev": "Root", "samples": [val_node(s, I) for s in samples], "name": name})
        try:
            meta = gen.generate(*samples)
        except Exception as e:
            failed = DI.exc_name(e)
            break
        meta_node = type_node(meta, I)
        before = project_graph(reg, I)
        try:
            ptr = reg.process_meta_data(meta, model_name=name)
        except Exception as e:
            failed = DI.exc_name(e)
            break
        ptrs.append(ptr)
        evs.append({"ev": "Register", "meta": meta_node, "before": before, "after": project_graph(reg, I),
                    "root": ixnum(ptr.type.index), "exc": ""})
    before = project_graph(reg, I)
    before_items = list(reg.models_map.items())
    mm = {"ev": "MergeModels", "policy": policy_json(policy, before_items, I), "before": before, "exc": failed,
          "after": None, "replaces": [], "roots": [], "env": None}
    if not failed:
        try:
            replaces = reg.merge_models(gen)
            mm["after"] = project_graph(reg, I)
            mm["replaces"] = [{"new": ixnum(new.index), "olds": sorted(ixnum(o.index) for o in olds)} for new, olds in replaces]
            mm["roots"] = [ixnum(p.type.index) for p in ptrs]
        except Exception as e:
            mm["exc"] = DI.exc_name(e)
    evs.append(mm)
    if not mm["exc"] and reoptimize:
        ro = {"ev": "Reoptimize", "exc": "", "after": None}
        try:
            for m in list(reg.models):
                gen.optimize_type(m)
            ro["after"] = project_graph(reg, I)
        except Exception as e:
            ro["exc"] = DI.exc_name(e)
        evs.append(ro)
    if not mm["exc"] and compose:
        # the layout stage on this very registry (after generate_names, as the pipeline does)
        from json_to_models.models.structure import compose_models, compose_models_flat
        ce = {"ev": "Compose", "exc": "", "graph": None, "nested": {"roots": [], "children": {}, "inj": []}, "flat": []}
        try:
            reg.generate_names()
            ce["graph"] = project_graph(reg, I)
            ce["nested"]["children"] = {m["ix"]: [] for m in ce["graph"]["models"]}
            roots, inj = compose_models(reg.models_map)
            seen = set()

            def walk(struct):
                if id(struct) in seen:
                    return
                seen.add(id(struct))
                ce["nested"]["children"][ixnum(struct["model"].index)] = [ixnum(c["model"].index) for c in struct["nested"]]
                for c in struct["nested"]:
                    walk(c)
            ce["nested"]["roots"] = [ixnum(s_["model"].index) for s_ in roots]
            for s_ in roots:
                walk(s_)
            flat, _ = compose_models_flat(reg.models_map)
            ce["flat"] = [ixnum(s_["model"].index) for s_ in flat]
        except Exception as e:
            ce["exc"] = DI.exc_name(e)
            if ce["graph"] is None:
                ce["graph"] = project_graph(reg, I)
        evs.append(ce)
    env = make_env(I, sreg, dkf=envspec.get("dkf", ()), dkr=envspec.get("dkr", ()), anchored=envspec.get("anchored", False))
    mm["env"] = env
    return evs, reg, gen


# ---------------------------------------------------------------------- input generators
POLICIES = [[("exact", 0)], [("percent", 70), ("number", 10)], [("percent", 50)], [("number", 2)], [("number", 1)],
            [("percent", 100)], [("percent", 70), ("number", 2)], [("exact", 0), ("number", 3)]]
FKEYS = ["x", "y", "z", "w", "v"]
VALS = [1, 2.5, "s", "1", "1.5", True, None, [], [1], ["a"], {"k": 1}, {"k": "t", "j": 1}, [{"k": 1}], {}]


def random_nested_obj(rng, maxkeys=4):
    ks = rng.sample(FKEYS, rng.randint(1, maxkeys))
    return {k: rng.choice(VALS) for k in ks}


def random_merge_input(rng):
    """A root with several nested objects whose key sets overlap, so that merge policies have work to do."""
    names = ["p", "q", "r", "items", "nodes"]
    n = rng.randint(1, 3)
    samples = []
    for _ in range(n):
        s = {}
        for nm in rng.sample(names, rng.randint(2, 4)):
            c = rng.random()
            if c < 0.5:
                s[nm] = random_nested_obj(rng)
            elif c < 0.8:
                s[nm] = [random_nested_obj(rng) for _ in range(rng.randint(0, 3))]
            elif c < 0.9:
                s[nm] = {"inner": random_nested_obj(rng), "x": rng.choice(VALS[:6])}
            else:
                s[nm] = rng.choice(VALS)
        samples.append(s)
    return samples


def registry_traces(pid, chk, cases):
    """cases: list of (roots, envspec, policy, origin).  One trace per case (C07: all permutations in one trace)."""
    traces, inputs = [], {}
    for i, (roots, envspec, policy, origin) in enumerate(cases):
        tid = "%s%d" % (origin, i)
        I = Interner()
        if pid == "C07":
            evs = []
            name, samples = roots[0]
            perms = list(itertools.permutations(range(len(samples))))
            if len(perms) > 6:
                perms = [perms[0]] + chk.rng.sample(perms[1:], 5)
            variants = [[samples[j] for j in p] for p in perms]
            j = chk.rng.randrange(len(samples))
            variants.append(samples + [samples[j]])
            variants.append([samples[j]] + samples + samples[::-1])
            mms = []
            for v in variants:
                e, _, _ = pipeline_events([(name, v)] + roots[1:], envspec, policy, I, reoptimize=False)
                evs += e
                mms += [x for x in e if x["ev"] == "MergeModels"]
            for m in mms:
                m["env"] = mms[-1]["env"]
        else:
            evs, _, _ = pipeline_events(roots, envspec, policy, I, compose=(pid == "C12"))
        traces.append({"id": tid, "events": evs})
        inputs[tid] = {"roots": roots, "env": envspec, "policy": policy}
    return traces, inputs


# ---------------------------------------------------------------------- all similarity graphs (MC_Closure)
CFG_CLOSURE = """SPECIFICATION Spec
CONSTANTS
  NM = %d
  Emit = %s
INVARIANT Correct
INVARIANT SameAsTraversal
INVARIANT Inside
INVARIANT Bounded
PROPERTY Terminates
CHECK_DEADLOCK FALSE
"""


def mc_closure(chk, nm, emit=True, timeout=3000):
    r = chk.model_check("MC_Closure", CFG_CLOSURE % (nm, "TRUE" if emit else "FALSE"),
                        "group closure of merge_models for every similarity relation on %d models: Correct SameAsTraversal Inside Bounded, "
                        "liveness Terminates" % nm, timeout=timeout)
    return [json.loads(t[1]) for t in tlc.printed_tuples(r["out"], "B")] if emit else []


def closure_cases(behaviours, nm):
    """one root sample with nm nested objects of pairwise distinct key sets; similarity given by the table"""
    keysets = {str(i): ["f%d" % i, "g%d" % i] for i in range(1, nm + 1)}
    sample = {"m%d" % i: {k: 1 for k in keysets[str(i)]} for i in range(1, nm + 1)}
    cases = []
    for b in behaviours:
        pairs = [(keysets[p[0]], keysets[p[1]]) for p in b["pairs"]]
        cases.append(([("Root", [sample])], {}, [("table", pairs)], "clo"))
    return cases


def boundary_cases(quick):
    """two nested objects with |a & b| = i and |a | b| = u for every 0 <= i <= u <= 10: comparator thresholds"""
    cases = []
    pols = [[("percent", 70)], [("percent", 50)], [("percent", 100)], [("number", 1)], [("number", 2)], [("number", 10)],
            [("percent", 70), ("number", 10)], [("exact", 0)]]
    for u in range(1, 11):
        for i in range(0, u + 1):
            rest = u - i
            for ra in ({0, rest // 2, rest} if not quick else {rest // 2}):
                a = ["c%d" % k for k in range(i)] + ["a%d" % k for k in range(ra)]
                b = ["c%d" % k for k in range(i)] + ["b%d" % k for k in range(rest - ra)]
                if not a or not b:
                    continue
                sample = {"p": {k: 1 for k in a}, "q": {k: 1 for k in b}}
                for pol in pols:
                    cases.append(([("Root", [sample])], {}, pol, "bnd"))
    return cases


# ---------------------------------------------------------------------- MC_Registry
CFG_REGISTRY = """SPECIFICATION Spec
CONSTANTS
  UniverseId = "%s"
  Emit = %s
INVARIANT SoundG
INVARIANT TightG
INVARIANT NormalG
INVARIANT PartitionG
INVARIANT RefsG
INVARIANT OrderFreeG
INVARIANT Agrees
INVARIANT LayoutG
PROPERTY Terminates
CHECK_DEADLOCK FALSE
"""
MCR_STRINGS = {"sA": "foo", "sB": "bar", "sInt": "1", "p": "p", "q": "q", "x": "x", "y": "y", "f": "f", "u": "u", "v": "v"}
MCR_POLICY = {"exact": [("exact", 0)], "p50": [("percent", 50)], "n1": [("number", 1)], "dflt": [("percent", 70), ("number", 10)]}


def mc_registry(chk, universe, emit=True, timeout=3000):
    r = chk.model_check("MC_Registry", CFG_REGISTRY % (universe, "TRUE" if emit else "FALSE"),
                        "registry pipeline state machine (generate, register, closure passes, group merges, final optimise), universe %s: "
                        "SoundG TightG NormalG PartitionG RefsG OrderFreeG Agrees LayoutG (the reached graphs through Layout.tla), Terminates" % universe, timeout=timeout)
    out = []
    if emit:
        for t in tlc.printed_tuples(r["out"], "B"):
            b = json.loads(t[1])
            out.append(([("Root", [DI.concretise(s, MCR_STRINGS) for s in b["samples"]])], {}, MCR_POLICY[b["policy"]], "mcr"))
    return out


def hidden_union_cases(rng, n):
    """two sibling lists of look-alike objects (they merge) whose common field `a` is, across the objects of each list, missing /
    a scalar / a list of mixed scalars: the merge of the two models meets a required or optional field with an Optional[Union[...]]
    field of the other model -- unions hidden behind Optional, inside List or Dict, must still be simplified and merged with their
    siblings (int next to float, str next to pseudo-types or literals, two List members, partial Literals)"""
    scal = [True, 1, 1.5, None, "s", "t", "1", "2.5", "x" * 21]
    cases = []

    def aval():
        r = rng.random()
        if r < 0.2:
            return "MISSING"
        if r < 0.5:
            return rng.choice(scal)
        inner = [rng.choice(scal) for _ in range(rng.choice([1, 2, 3]))]
        if rng.random() < 0.3:
            inner = [inner, [rng.choice(scal)]]        # one level deeper
        if rng.random() < 0.2:
            return {"k1": inner, "k2": rng.choice(scal)}
        return inner

    # the shape that hides a union two levels down: x.a = Optional[List[U1]], y.a = Optional[Union[List[U2], scalar]], where U1 and U2
    # only simplify together (int / float, pseudo-type / long string, two literal sets, literal set / long string)
    PAIRS = [([True, 1, None], [1.5]), ([1], [1.5, None]), (["1"], ["x" * 21]), (["1", True], ["2.5"]), (["c1", "c2"], ["d1", "x" * 25]),
             (["c1", "c2"], ["d1", "d2"]), ([[1]], [[1.5]]), ([{"k1": 1}], [{"k1": 1.5}]), (["1.5"], ["1", None]), ([1, "s"], [1.5, "t"])]
    for _ in range(n * 2 // 3):
        l1, l2 = rng.choice(PAIRS)
        if rng.random() < 0.5:
            l1, l2 = l2, l1
        xs = [{"k": 1, "p": 1, "a": list(l1)}, {"k": 1, "p": 1}]
        ys = [{"k": 1, "p": 1, "a": list(l2)}, {"k": 1, "p": 1, "a": rng.choice(["s", 1, True, "1"])}, {"k": 1, "p": 1}]
        if rng.random() < 0.3:
            xs = xs[:1]
        if rng.random() < 0.3:
            ys = ys[:2]
        rng.shuffle(xs)
        rng.shuffle(ys)
        s = {"x": xs, "y": ys} if rng.random() < 0.5 else {"y": ys, "x": xs}
        if rng.random() < 0.25:
            s = {"w": [{"k": 1, "p": 1, "a": rng.choice([None, [None], [[1]]])}], **s}
        cases.append(([("Root", [s])], {"dkr": ["k\\d"]}, rng.choice([[("percent", 70), ("number", 10)], [("number", 2)], [("percent", 50)]]), "hid"))
    for _ in range(n - n * 2 // 3):
        def objs():
            out = []
            for _ in range(rng.choice([1, 2, 3])):
                o = {"k": 1, "p": 1}
                v = aval()
                if v != "MISSING":
                    o["a"] = v
                out.append(o)
            return out
        s = {"x": objs(), "y": objs()}
        if rng.random() < 0.3:
            s["z"] = objs()
        env = {"dkr": ["k\\d"]} if rng.random() < 0.3 else {}
        cases.append(([("Root", [s])], env, rng.choice([[("percent", 70), ("number", 10)], [("number", 2)], [("percent", 50)]]), "hid"))
    return cases


def two_level_cases(rng, n):
    """two similar parent objects, each holding (directly / in a list / in a mapping / optionally) a child; the children are
    similar but not identical: parents and children form two merge groups, and the merged parent refers to both children"""
    cases = []
    for _ in range(n):
        c1 = {"u": rng.choice([1, "s"]), "w": 1}
        c2 = {"u": rng.choice([2.5, "t", None]), "w": 2, "v": rng.choice([1, None])}
        wrap = rng.choice(["direct", "list", "dict", "optional", "dictlist"])

        def W(c, other):
            if wrap == "direct":
                return c
            if wrap == "list":
                return [c, dict(c)]
            if wrap == "dict":
                return {"k1": c, "k2": dict(c)}
            if wrap == "dictlist":
                return {"k1": [c], "k2": [dict(c)]}
            return c
        p1 = {"k": 1, "n": "a", "f": W(c1, c2)}
        p2 = {"k": 2, "n": "b", "f": W(c2, c1)}
        s1 = {"p": p1, "q": p2}
        samples = [s1]
        if wrap == "optional":
            samples.append({"p": {"k": 3, "n": "c", "f": None}, "q": p2})
        env = {"dkr": ["k\\d"]} if wrap in ("dict", "dictlist") else {}
        cases.append(([("Root", samples)], env, rng.choice([[("exact", 0)], [("percent", 50)], [("number", 2)], [("percent", 70), ("number", 10)], [("number", 1)]]), "two"))
    # parents that are LIST ELEMENTS (their field types were hashed while still plain dicts) with an optional wrapper around
    # look-alike children that the policy keeps apart (one common key < number_2)
    for _ in range(max(4, n // 6)):
        wrapk = rng.choice(["list", "direct", "dict"])

        def C(v):
            c = {"k": v}
            return [c] if wrapk == "list" else {"k1": c} if wrapk == "dict" else c
        # first parent: the field is a plain, always present value; second and third: optional, wrapping look-alike children
        first = rng.choice(["s", 1, {"other": 1}, None])
        s1 = {"o": [{"a": 0, "b": 0, "z": first}, {"a": 9, "b": 9, "z": first}],
              "p": [{"a": 1, "b": 2, "z": C(1)}, {"a": 1, "b": 2}], "q": [{"a": 1, "b": 3, "z": C(rng.choice([2, 3]))}, {"a": 2, "b": 1}]}
        if rng.random() < 0.5:
            s1["r"] = [{"a": 5, "b": 5, "z": C(7)}, {"a": 6, "b": 6}]
        if rng.random() < 0.3:
            del s1["o"]
        env = {"dkr": ["k\\d"]} if wrapk == "dict" else {}
        cases.append(([("Root", [s1])], env, rng.choice([[("number", 2)], [("number", 2)], [("number", 3)], [("percent", 60)]]), "look"))
    return cases

"""Running TLC: model checking (loop A), behaviour dumps (loop B) and trace validation (loop C)."""
import json
import os
import re
import shutil
import subprocess
import tempfile
import time
from concurrent.futures import ThreadPoolExecutor

VERIF = os.path.dirname(os.path.dirname(os.path.abspath(__file__)))
SPEC = os.path.join(VERIF, "spec")
NCPU = os.cpu_count() or 4


class MachineryError(Exception):
    """TLC/sany failed or its output could not be understood: exit status 2, never a VIOLATION."""


def _env(extra=None):
    env = dict(os.environ)
    env["JAVA_TOOL_OPTIONS"] = "-Xss256m -Xmx3g" if (extra or {}).get("TRACE_FILE") else "-Xss256m"
    if extra:
        env.update(extra)
    return env


STATS_RE = re.compile(r"(\d+) states generated, (\d+) distinct states found, (\d+) states left on queue")


def run_tlc(module, cfg_text, *, workers=None, timeout=1800, extra_env=None, args=(), simulate=None):
    """Run TLC on spec/<module>.tla with the given cfg text.  Returns dict(rc, out, generated, distinct, wall)."""
    work = tempfile.mkdtemp(prefix="j2m-tlc-")
    try:
        cfg = os.path.join(work, module + ".cfg")
        with open(cfg, "w") as f:
            f.write(cfg_text)
        cmd = ["tlc", "-workers", str(workers or NCPU), "-metadir", os.path.join(work, "meta"),
               "-noGenerateSpecTE", "-config", cfg]
        if simulate:
            cmd += ["-simulate", simulate]
        cmd += list(args) + [module + ".tla"]
        t0 = time.time()
        try:
            p = subprocess.run(cmd, cwd=SPEC, env=_env(extra_env), stdout=subprocess.PIPE, stderr=subprocess.STDOUT,
                               timeout=timeout, text=True, errors="replace")
        except subprocess.TimeoutExpired as e:
            raise MachineryError("TLC timed out after %ss on %s" % (timeout, module)) from e
        out = p.stdout
        m = None
        for m in STATS_RE.finditer(out):
            pass
        res = {"rc": p.returncode, "out": out, "wall": time.time() - t0, "cmd": " ".join(cmd),
               "generated": int(m.group(1)) if m else 0, "distinct": int(m.group(2)) if m else 0}
        return res
    finally:
        shutil.rmtree(work, ignore_errors=True)


def check_model(module, cfg_text, **kw):
    """Loop A.  Returns stats; raises MachineryError if TLC reports anything but success."""
    r = run_tlc(module, cfg_text, **kw)
    ok = "Model checking completed. No error has been found." in r["out"] or \
         (kw.get("simulate") and r["rc"] == 0)
    r["ok"] = bool(ok)
    if not ok:
        r["error"] = tlc_error_summary(r["out"])
    return r


def tlc_error_summary(out):
    lines = out.splitlines()
    keep = [l for l in lines if l.startswith("Error:") or "is violated" in l or "Exception" in l]
    return "\n".join(keep[:12]) or "\n".join(lines[-15:])


# ------------------------------------------------------------------ PrintT parsing
def parse_tla_value(s):
    """Parse the TLA+ value syntax TLC prints (tuples, sets, strings, ints, booleans, records) into Python."""
    pos = 0
    n = len(s)

    def ws():
        nonlocal pos
        while pos < n and s[pos] in " \n\t\r":
            pos += 1

    def val():
        nonlocal pos
        ws()
        if s.startswith("<<", pos):
            pos += 2
            items = seq(">>")
            return items
        if s[pos] == "{":
            pos += 1
            return {"set": seq("}")}
        if s[pos] == "[":
            pos += 1
            rec = {}
            ws()
            while s[pos] != "]":
                m = re.compile(r"\s*([A-Za-z0-9_]+)\s*\|->").match(s, pos)
                pos = m.end()
                rec[m.group(1)] = val()
                ws()
                if s[pos] == ",":
                    pos += 1
                ws()
            pos += 1
            return rec
        if s[pos] == '"':
            j = pos + 1
            buf = []
            while s[j] != '"':
                if s[j] == "\\":
                    j += 1
                buf.append(s[j])
                j += 1
            pos = j + 1
            return "".join(buf)
        m = re.compile(r"-?\d+|TRUE|FALSE").match(s, pos)
        if not m:
            raise MachineryError("cannot parse TLA value at %d: %r" % (pos, s[pos:pos + 40]))
        pos = m.end()
        t = m.group(0)
        return True if t == "TRUE" else False if t == "FALSE" else int(t)

    def seq(close):
        nonlocal pos
        items = []
        ws()
        while not s.startswith(close, pos):
            items.append(val())
            ws()
            if s[pos] == ",":
                pos += 1
            ws()
        pos += len(close)
        return items

    v = val()
    return v


def printed_tuples(out, tag):
    """All PrintT'ed tuples <<"tag", ...>> in TLC output (bracket matching: robust to line wrapping)."""
    res = []
    needle = re.compile(r'<<\s*"%s"' % re.escape(tag))
    m0 = needle.search(out)
    i = m0.start() if m0 else -1
    while i >= 0:
        depth = 0
        j = i
        instr = False
        while j < len(out):
            c = out[j]
            if instr:
                if c == "\\":
                    j += 1
                elif c == '"':
                    instr = False
            elif c == '"':
                instr = True
            elif out.startswith("<<", j):
                depth += 1
                j += 1
            elif out.startswith(">>", j):
                depth -= 1
                j += 1
                if depth == 0:
                    break
            j += 1
        res.append(parse_tla_value(out[i:j + 1]))
        m0 = needle.search(out, j)
        i = m0.start() if m0 else -1
    return res


# ------------------------------------------------------------------ trace validation (loop C)
TRACE_CFG = """SPECIFICATION TraceSpec
CHECK_DEADLOCK FALSE
CONSTANTS
  Claim = "%s"
"""


def _nonull(x):
    """TLC's Json module cannot deserialise null: absent values travel as empty strings (specs guard them by `exc`)"""
    if x is None:
        return ""
    if isinstance(x, dict):
        return {k: _nonull(v) for k, v in x.items()}
    if isinstance(x, (list, tuple)):
        return [_nonull(v) for v in x]
    return x


def validate_traces(module, claim, traces, *, shard=400, timeout=1800, jobs=None, extra_constants="", batch_extra=None):
    """Ship traces (list of {"id":..., "events":[...]}) to TLC in shards; return {id: verdict-record}.

    verdict-record = {"verdict": "ok" | "<clause>@<event>", "drift": int, "live": [clauses with true antecedent]}
    """
    if not traces:
        return {}, {"generated": 0, "distinct": 0, "runs": 0, "wall": 0.0}
    shards = [traces[i:i + shard] for i in range(0, len(traces), shard)]
    work = tempfile.mkdtemp(prefix="j2m-traces-")
    stats = {"generated": 0, "distinct": 0, "runs": 0, "wall": 0.0}
    verdicts = {}
    try:
        def run_batch(name, batch, tmo):
            path = os.path.join(work, "%s.json" % name)
            with open(path, "w") as f:
                json.dump(_nonull(dict(batch_extra or {}, traces=batch)), f)
            try:
                r = run_tlc(module, TRACE_CFG % claim + extra_constants, workers=1, timeout=tmo,
                            extra_env={"TRACE_FILE": path})
            except MachineryError as e:
                r = {"out": "", "generated": 0, "distinct": 0, "wall": tmo, "failed": str(e)}
            os.unlink(path)
            if "Model checking completed. No error has been found." not in r["out"]:
                r["failed"] = r.get("failed") or tlc_error_summary(r["out"])
            return r

        def take(batch, r):
            got = printed_tuples(r["out"], "VERDICT")
            ids = set()
            for t in got:
                _, tid, verdict, drift, live = t[:5]
                verdicts[tid] = {"verdict": verdict, "drift": drift, "live": sorted(live["set"])}
                if len(t) > 5:
                    verdicts[tid]["info"] = t[5]
                ids.add(tid)
            stats["generated"] += r["generated"]
            stats["distinct"] += r["distinct"]
            stats["runs"] += 1
            stats["wall"] += r["wall"]
            return [t for t in batch if t["id"] not in ids]

        def one(k):
            r = run_batch("batch%d" % k, shards[k], timeout)
            if not r.get("failed"):
                missing = take(shards[k], r)
                if missing:
                    raise MachineryError("no VERDICT line for traces %s (%s)\n%s" % ([t["id"] for t in missing][:5], module, r["out"][-2000:]))
                return []
            # the shard failed (timeout, out of memory, evaluation error): retry every trace on its own
            bad = []
            for j, t in enumerate(shards[k]):
                r1 = run_batch("batch%d_%d" % (k, j), [t], 180)
                if r1.get("failed") or take([t], r1):
                    bad.append((t["id"], (r1.get("failed") or "no verdict")[:300]))
            return bad

        inconclusive = []
        with ThreadPoolExecutor(max_workers=jobs or min(NCPU, len(shards))) as ex:
            for bad in ex.map(one, range(len(shards))):
                inconclusive.extend(bad)
        stats["inconclusive"] = inconclusive
        # evaluation errors that are not resource problems are bugs of the trace spec: fail loudly
        hard = [b for b in inconclusive if "timed out" not in b[1] and "memory" not in b[1] and "StackOverflow" not in b[1]]
        if hard:
            raise MachineryError("TLC could not evaluate traces %s (%s): %s" % ([b[0] for b in hard][:5], module, hard[0][1]))
        if len(inconclusive) > max(3, len(traces) // 50):
            raise MachineryError("too many traces beyond TLC's resources: %s" % [b[0] for b in inconclusive][:10])
    finally:
        shutil.rmtree(work, ignore_errors=True)
    return verdicts, stats

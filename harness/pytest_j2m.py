"""pytest plugin: record what the repository's own tests make the library do (guard J2M_VERIF=1).

  cd /repo && J2M_VERIF=1 J2M_TRACE_OUT=<file> PYTHONPATH=/verif /venv/bin/python -m pytest -p harness.pytest_j2m ...

Every MetadataGenerator.generate call (top level) becomes a Generate event, every ModelRegistry.merge_models call a
MergeModels event, projected at the return of the call; they are written to J2M_TRACE_OUT at session end and validated
by TLC afterwards (Trace_Infer / Trace_Registry)."""
import json
import os

_EVENTS = []
_UNDO = []


def pytest_configure(config):
    if os.environ.get("J2M_VERIF") != "1":
        return
    from harness.project import Interner, val_node, type_node, make_env
    from harness import drive_registry as DR
    from json_to_models.generator import MetadataGenerator
    from json_to_models.registry import ModelRegistry, ModelFieldsEquals, ModelFieldsNumberMatch, ModelFieldsPercentMatch
    depth = [0]
    orig_gen = MetadataGenerator.generate
    orig_merge = ModelRegistry.merge_models

    def generate(self, *data):
        depth[0] += 1
        try:
            snap = json.loads(json.dumps(data, default=str))
        except Exception:
            snap = None
        exc = ""
        try:
            r = orig_gen(self, *data)
            return r
        except BaseException as e:
            exc = "%s: %s" % (type(e).__name__, str(e)[:80])
            r = None
            raise
        finally:
            depth[0] -= 1
            if depth[0] == 0 and snap is not None and all(isinstance(s, dict) for s in snap):
                try:
                    I = Interner()
                    vals = [val_node(s, I) for s in snap]
                    res = type_node(r, I) if r is not None else None
                    env = make_env(I, self.str_types_registry, dkf=sorted(self.dict_keys_fields), dkr=list(self.dict_keys_regex))
                    _EVENTS.append({"ev": "Generate", "samples": vals, "env": env, "result": res, "exc": exc,
                                    "test": os.environ.get("PYTEST_CURRENT_TEST", "")})
                except Exception as e:       # a type the projection does not know (test doubles): skip, never break the test
                    pass

    def policy_of(reg):
        out = []
        for c in reg._models_cmp:
            if type(c) is ModelFieldsEquals:
                out.append({"kind": "exact", "num": 0, "pairs": []})
            elif type(c) is ModelFieldsPercentMatch:
                p = c.percent_fields * 100
                if abs(p - round(p)) > 1e-9:
                    return None
                out.append({"kind": "percent", "num": int(round(p)), "pairs": []})
            elif type(c) is ModelFieldsNumberMatch:
                out.append({"kind": "number", "num": int(c.number_fields), "pairs": []})
            else:
                return None
        return out

    def merge_models(self, generator, *a, **k):
        I = Interner()
        pol = policy_of(self)
        try:
            before = DR.project_graph(self, I)
        except Exception:
            before = None
        exc = ""
        replaces = None
        try:
            replaces = orig_merge(self, generator, *a, **k)
            return replaces
        except BaseException as e:
            exc = "%s: %s" % (type(e).__name__, str(e)[:80])
            raise
        finally:
            if before is not None and pol is not None:
                try:
                    after = DR.project_graph(self, I) if not exc else None
                    rep = [{"new": DR.ixnum(n.index), "olds": sorted(DR.ixnum(o.index) for o in olds)} for n, olds in (replaces or [])]
                    roots = sorted({DR.ixnum(ix) for ix, m in self.models_map.items() if any(p.parent is None for p in m.pointers)})
                    env = make_env(I, generator.str_types_registry)
                    _EVENTS.append({"ev": "MergeModels", "policy": pol, "before": before, "after": after, "replaces": rep,
                                    "roots": roots, "env": env, "exc": exc, "test": os.environ.get("PYTEST_CURRENT_TEST", "")})
                except Exception:
                    pass

    MetadataGenerator.generate = generate
    ModelRegistry.merge_models = merge_models
    _UNDO.append((MetadataGenerator, "generate", orig_gen))
    _UNDO.append((ModelRegistry, "merge_models", orig_merge))


def pytest_sessionfinish(session, exitstatus):
    out = os.environ.get("J2M_TRACE_OUT")
    if out and os.environ.get("J2M_VERIF") == "1":
        with open(out, "w") as f:
            json.dump(_EVENTS, f)
    for cls, name, orig in _UNDO:
        setattr(cls, name, orig)

"""Full pipeline -> emitted text -> executed module -> abstract `loaded` record (DESIGN.md 4.2).

The loaded record is obtained from the executed module by framework introspection (pydantic __fields__,
attr.fields, dataclasses.fields, typing.get_type_hints), never from the generator's own data."""
import ast
import dataclasses as _dc
import json
import os
import sys
import typing

STUBS = os.path.join(os.path.dirname(os.path.abspath(__file__)), "stubs")
if STUBS not in sys.path:
    sys.path.append(STUBS)

from .project import Interner, N, val_node, make_env      # noqa: E402  (sets up sys.path for the repo)
from . import drive_infer as DI                           # noqa: E402
from . import drive_registry as DR                        # noqa: E402
import typing_extensions                                   # noqa: E402
import attr                                                # noqa: E402
import pydantic.v1 as pyd                                  # noqa: E402
from json_to_models.registry import ModelRegistry          # noqa: E402
from json_to_models.models.base import GenericModelCodeGenerator, generate_code, prepare_label, METADATA_FIELD_NAME  # noqa: E402
from json_to_models.models.attr import AttrsModelCodeGenerator          # noqa: E402
from json_to_models.models.dataclasses import DataclassModelCodeGenerator  # noqa: E402
from json_to_models.models.pydantic import PydanticModelCodeGenerator   # noqa: E402
from json_to_models.models.sqlmodel import SqlModelCodeGenerator        # noqa: E402
from json_to_models.models.structure import compose_models, compose_models_flat  # noqa: E402
from json_to_models.dynamic_typing import StringSerializable             # noqa: E402

GENERATORS = {"base": GenericModelCodeGenerator, "attrs": AttrsModelCodeGenerator,
              "dataclasses": DataclassModelCodeGenerator, "pydantic": PydanticModelCodeGenerator,
              "sqlmodel": SqlModelCodeGenerator}
MODNAME = "j2m_generated"


class Result(dict):
    __getattr__ = dict.get


def run_pipeline(roots, envspec, policy, fw, layout, kw=None, I=None, preamble=None):
    """roots: [(name, samples)].  Returns Result(text, exc, stage, registry, gen, graph, roots_ix, ...)."""
    I = I or Interner()
    kw = dict(kw or {})
    res = Result(text=None, exc="", stage="", fw=fw, layout=layout, kw=kw)
    gen, sreg = DI.make_generator(envspec)
    reg = ModelRegistry(*DR.make_policy(policy))
    res.update(gen=gen, sreg=sreg, registry=reg, I=I)
    ptrs = []
    try:
        res["stage"] = "generate"
        for name, samples in roots:
            meta = gen.generate(*json.loads(json.dumps(samples)))
            res["stage"] = "register"
            ptrs.append(reg.process_meta_data(meta, model_name=name))
            res["stage"] = "generate"
        res["stage"] = "merge"
        reg.merge_models(gen)
        res["stage"] = "names"
        reg.generate_names()
        res["names_before"] = {DR.ixnum(ix): m.name for ix, m in reg.models_map.items()}
        res["stage"] = "compose"
        structure = (compose_models_flat if layout == "flat" else compose_models)(reg.models_map)
        res["structure"] = structure
        res["stage"] = "render"
        res["text"] = generate_code(structure, GENERATORS[fw], class_generator_kwargs=kw, preamble=preamble)
        res["stage"] = "done"
    except Exception as e:   # the code under test raised
        res["exc"] = DI.exc_name(e)
    res["roots_ix"] = [DR.ixnum(p.type.index) for p in ptrs]
    res["root_ptrs"] = ptrs
    return res


# ---------------------------------------------------------------------- loading
def load_text(text):
    """compile + exec.  Returns (namespace | None, parse_exc, exec_exc)"""
    try:
        tree = ast.parse(text)
    except SyntaxError as e:
        return None, "SyntaxError: %s" % e.msg, ""
    except (UnicodeError, ValueError) as e:
        # text that cannot even be encoded as source (a raw lone surrogate): it does not compile
        return None, "%s: %s" % (type(e).__name__, str(e)[:80]), ""
    import types
    mod = types.ModuleType(MODNAME)
    ns = mod.__dict__
    old = sys.modules.get(MODNAME)
    sys.modules[MODNAME] = mod        # dataclasses and pydantic look the defining module up by name
    try:
        exec(compile(tree, "<generated>", "exec"), ns)
    except BaseException as e:
        return ns, "", DI.exc_name(e)
    finally:
        if old is not None:
            sys.modules[MODNAME] = old
    return ns, "", ""


def module_classes(ns):
    """[(path tuple, class, chain of enclosing classes)] for every class defined by the generated module, definition order"""
    out = []

    def rec(cls, path, chain):
        out.append((path, cls, chain))
        for k, v in vars(cls).items():
            if isinstance(v, type) and getattr(v, "__module__", None) == MODNAME and v.__qualname__.startswith(cls.__qualname__ + "."):
                rec(v, path + (k,), chain + [cls])

    for k, v in ns.items():
        if isinstance(v, type) and getattr(v, "__module__", None) == MODNAME and "." not in v.__qualname__:
            rec(v, (k,), [])
    return out


def scope_of(ns, cls, chain):
    local = {}
    for c in chain + [cls]:
        local.update({k: v for k, v in vars(c).items() if isinstance(v, type)})
        local[c.__name__] = c
    return local


PSEUDO_NAMES = {"IntString", "FloatString", "BooleanString", "IsoDateString", "IsoTimeString", "IsoDatetimeString"}


def ann_node(tp, I):
    """evaluated typing object -> annotation node"""
    if tp is typing.Any:
        return N("any")
    if tp is type(None) or tp is None:
        return N("none")
    if tp is int or tp is float or tp is bool or tp is str:
        return N(tp.__name__)
    origin = typing.get_origin(tp)
    args = typing.get_args(tp)
    if origin is typing.Union:
        return N("union", xs=[ann_node(a, I) for a in args])
    if origin in (typing.Literal, typing_extensions.Literal):
        return N("literal", ls=sorted(I(a) if isinstance(a, str) else "#nonstr" for a in args))
    if origin is list:
        return N("list", xs=[ann_node(args[0], I)])
    if origin is dict:
        if args[0] is not str:
            return N("weird", n="dictkey")
        return N("dict", xs=[ann_node(args[1], I)])
    if isinstance(tp, type):
        if tp.__module__ == MODNAME:
            return N("cls", n=I(tp.__name__))
        if tp.__name__ in PSEUDO_NAMES and issubclass(tp, StringSerializable):
            return N("cls", n=tp.__name__)
        if tp.__module__ == "datetime":
            return N("cls", n=tp.__name__)
        return N("weird", n=tp.__name__[:30])
    if isinstance(tp, (str, typing.ForwardRef)):
        return N("unresolved")
    return N("weird", n=type(tp).__name__[:30])


def introspect(ns, fw, I):
    """-> list of class records {name, path, fields:[{py, jk, ann, dk}], hints_exc, bases}"""
    out = []
    for path, cls, chain in module_classes(ns):
        rec = {"name": I(cls.__name__), "path": [I(p) for p in path], "depth": len(path), "fields": [], "hints_exc": "",
               "parent": I(chain[-1].__name__) if chain else ""}
        local = scope_of(ns, cls, chain)
        try:
            hints = typing.get_type_hints(cls, globalns=dict(ns), localns=local)
        except BaseException as e:
            hints = {}
            rec["hints_exc"] = DI.exc_name(e)
        own = list(getattr(cls, "__annotations__", {}).keys())
        info = {}
        try:
            if fw in ("pydantic", "sqlmodel") and hasattr(cls, "__fields__"):
                for name, f in cls.__fields__.items():
                    if f.required:
                        dk = "none"
                    elif f.default_factory is not None:
                        dk = {"list": "list", "dict": "dict"}.get(getattr(f.default_factory, "__name__", ""), "factory")
                    else:
                        dk = "None" if f.default is None else "list" if f.default == [] and isinstance(f.default, list) \
                            else "dict" if f.default == {} and isinstance(f.default, dict) else "value"
                    info[name] = (f.alias, dk)
            elif fw == "attrs" and attr.has(cls):
                for a in attr.fields(cls):
                    if a.default is attr.NOTHING:
                        dk = "none"
                    elif isinstance(a.default, attr.Factory):
                        dk = {"list": "list", "dict": "dict"}.get(getattr(a.default.factory, "__name__", ""), "factory")
                    else:
                        dk = "None" if a.default is None else "value"
                    info[a.name] = (a.metadata.get(METADATA_FIELD_NAME, a.name), dk)
            elif fw == "dataclasses" and _dc.is_dataclass(cls):
                for f in _dc.fields(cls):
                    if f.default is not _dc.MISSING:
                        dk = "None" if f.default is None else "value"
                    elif f.default_factory is not _dc.MISSING:
                        dk = {"list": "list", "dict": "dict"}.get(getattr(f.default_factory, "__name__", ""), "factory")
                    else:
                        dk = "none"
                    info[f.name] = (f.metadata.get(METADATA_FIELD_NAME, f.name), dk)
            else:
                for name in own:
                    info[name] = (name, "value" if name in vars(cls) else "none")
        except BaseException as e:
            rec["hints_exc"] = rec["hints_exc"] or DI.exc_name(e)
        for name in own:
            jk, dk = info.get(name, (name, "nofield"))
            rec["fields"].append({"py": I(name), "jk": I(jk) if isinstance(jk, str) else "#nonstr",
                                  "ann": ann_node(hints[name], I) if name in hints else N("unresolved"), "dk": dk})
        for name in info:
            if name not in own:
                rec["fields"].append({"py": I(name), "jk": "#extra", "ann": N("unresolved"), "dk": "extra"})
        out.append(rec)
    return out


# ---------------------------------------------------------------------- expected side: the graph with names
def graph_with_names(res, I):
    """registry after rendering, projected: models with ix, t, name (as rendered), label table for every key"""
    reg = res.registry
    g = DR.project_graph(reg, I)
    cu = res.kw.get("convert_unicode", True)
    labels = {}
    for ix, m in reg.models_map.items():
        for key in m.type.keys():
            try:
                lab = prepare_label(key, convert_unicode=cu, to_snake_case=True)
                if res.fw == "sqlmodel" and key in ("id", "pk"):
                    lab = key
            except Exception:
                lab = None
            labels[I(key)] = I(lab) if lab is not None else "#exc"
    for m, (ix, mm) in zip(g["models"], reg.models_map.items()):
        m["name"] = I(mm.name) if mm.name else ""
    return g, labels


# ---------------------------------------------------------------------- text level facts (PyLoad model input)
def text_facts(text, I):
    """abstract `module`: imports bound at module level, classes with ordered body statements and the unquoted names
    each statement looks up (annotation + value), decorators, nested classes; plus lexical facts about names"""
    import keyword
    tree = ast.parse(text)
    imports = []
    preamble_seen = []

    def names_in(node):
        out = []
        if node is None:
            return out
        for n in ast.walk(node):
            if isinstance(n, ast.Name):
                out.append(n.id)
        return out

    def cls_rec(c):
        body = []
        nested = []
        for st in c.body:
            if isinstance(st, ast.AnnAssign) and isinstance(st.target, ast.Name):
                body.append({"kind": "field", "name": I(st.target.id), "binds": st.value is not None,
                             "uses": sorted({I(x) for x in names_in(st.annotation) + names_in(st.value)})})
            elif isinstance(st, ast.ClassDef):
                r = cls_rec(st)
                nested.append(r)
                body.append({"kind": "class", "name": I(st.name), "binds": True,
                             "uses": sorted({I(x) for d in st.decorator_list for x in names_in(d)} |
                                            {I(x) for b in st.bases for x in names_in(b)})})
            elif isinstance(st, ast.Pass):
                pass
            else:
                body.append({"kind": "other", "name": "", "binds": False, "uses": sorted({I(x) for x in names_in(st)})})
        return {"name": I(c.name), "body": body, "nested": nested,
                "deco": sorted({I(x) for d in c.decorator_list for x in names_in(d)} | {I(x) for b in c.bases for x in names_in(b)}),
                "ident_ok": c.name.isidentifier() and not keyword.iskeyword(c.name)}

    classes = []
    order = []
    for st in tree.body:
        if isinstance(st, ast.ImportFrom):
            for a in st.names:
                imports.append(I(a.asname or a.name))
            order.append("import")
        elif isinstance(st, ast.Import):
            for a in st.names:
                imports.append(I((a.asname or a.name).split(".")[0]))
            order.append("import")
        elif isinstance(st, ast.ClassDef):
            classes.append(cls_rec(st))
            order.append("class")
        elif isinstance(st, ast.Expr) and isinstance(st.value, ast.Constant) and isinstance(st.value.value, str):
            order.append("docstring")
        else:
            order.append("other")
    return {"imports": sorted(set(imports)), "classes": classes, "order": order}

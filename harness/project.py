"""Projection: real json2python-models objects -> abstract records of spec/J2MBase.tla.

Every JSON value, every IR type and every annotation becomes
    {"k": kind, "n": string id, "ls": [string ids], "xs": [nodes], "ks": [string ids]}
Strings never travel raw: they are interned to ASCII ids and described by an
environment record (acceptance table, length class, dict-key matches).
"""
import os
import sys

REPO = os.environ.get("J2M_REPO", "/repo")
if REPO not in sys.path:
    sys.path.insert(0, REPO)
sys.dont_write_bytecode = True

import json_to_models  # noqa: E402
from json_to_models.dynamic_typing import (  # noqa: E402
    DDict, DList, DOptional, DUnion, ModelMeta, ModelPtr, Null, StringLiteral, StringSerializable, Unknown,
    BooleanString, FloatString, IntString, IsoDateString, IsoDatetimeString, IsoTimeString,
    StringSerializableRegistry,
)

assert os.path.realpath(json_to_models.__file__).startswith(os.path.realpath(REPO)), \
    (json_to_models.__file__, REPO)

ALL_PSEUDO = [IntString, FloatString, BooleanString, IsoDateString, IsoTimeString, IsoDatetimeString]


def N(k, n="", ls=(), xs=(), ks=()):
    return {"k": k, "n": n, "ls": list(ls), "xs": list(xs), "ks": list(ks)}


class Interner:
    """string <-> ASCII id.  ids look like s0, s1, ... (never clash with kinds or type names)"""

    def __init__(self):
        self.ids = {}
        self.strings = []

    def __call__(self, s):
        i = self.ids.get(s)
        if i is None:
            i = "s%d" % len(self.strings)
            self.ids[s] = i
            self.strings.append(s)
        return i

    def text(self, i):
        return self.strings[int(i[1:])]


def val_node(v, I):
    """JSON value -> node"""
    t = type(v)
    if v is None:
        return N("null")
    if t is bool:
        return N("bool")
    if t is int:
        return N("int")
    if t is float:
        return N("float")
    if t is str:
        return N("str", I(v))
    if t is list:
        return N("list", xs=[val_node(x, I) for x in v])
    if isinstance(v, dict):
        return N("obj", xs=[val_node(x, I) for x in v.values()], ks=[I(k) for k in v.keys()])
    raise TypeError("not a JSON value: %r" % (v,))


def type_node(t, I):
    """IR metadata -> node (members in implementation order)"""
    if isinstance(t, dict):
        return N("obj", xs=[type_node(x, I) for x in t.values()], ks=[I(k) for k in t.keys()])
    if t is Unknown:
        return N("unknown")
    if t is Null:
        return N("null")
    if t is int:
        return N("int")
    if t is float:
        return N("float")
    if t is bool:
        return N("bool")
    if t is str:
        return N("str")
    if isinstance(t, type) and issubclass(t, StringSerializable):
        return N("pseudo", t.__name__)
    if isinstance(t, StringLiteral):
        if t.overflowed:
            return N("litover")
        return N("lit", ls=sorted(I(s) for s in t.literals))
    if isinstance(t, ModelPtr):
        return N("ptr", t.type.index)
    if isinstance(t, ModelMeta):
        return N("ptr", t.index)
    if isinstance(t, DOptional):
        return N("opt", xs=[type_node(t.type, I)])
    if isinstance(t, DList):
        return N("list", xs=[type_node(t.type, I)])
    if isinstance(t, DDict):
        return N("dict", xs=[type_node(t.type, I)])
    if isinstance(t, DUnion):
        return N("union", xs=[type_node(x, I) for x in t.types])
    raise TypeError("unknown IR node: %r (%s)" % (t, type(t)))


def accepts(cls, s):
    try:
        cls.to_internal_value(s)
        return True
    except ValueError:
        return False
    except Exception:   # OverflowError etc.: the parser does not accept it in the sense of detection
        return None


def make_env(I, reg, dkf=(), dkr=(), anchored=False, classes=None):
    """Environment record for the strings interned so far.

    reg      StringSerializableRegistry in use
    dkr      list of regex sources; matched with re.match (library) or against the whole key (CLI)
    classes  pseudo-type classes whose acceptance is tabulated (default: the six built-in ones + reg's)
    """
    import re
    classes = list(classes or ALL_PSEUDO)
    for c in reg.types:
        if c not in classes:
            classes.append(c)
    acc = {}
    weird = {}
    for sid, s in zip(list(I.ids.values()), list(I.ids.keys())):
        a = []
        for c in classes:
            r = accepts(c, s)
            if r:
                a.append(c.__name__)
            elif r is None:
                weird.setdefault(sid, []).append(c.__name__)
        acc[sid] = a
    # "anchored at both ends" = the whole key matches the pattern (re.fullmatch), whatever the pattern's top-level operators are
    pats = [re.compile(r) if isinstance(r, str) else r for r in dkr]
    dkrm = {sid: [i + 1 for i, p in enumerate(pats) if (p.fullmatch(s) if anchored else p.match(s))] for s, sid in I.ids.items()}
    return {
        "reg": [c.__name__ for c in reg.types],
        "repl": sorted([a.__name__, b.__name__] for a, b in reg.replaces),
        "acc": acc,
        "long": [sid for s, sid in I.ids.items() if len(s) >= 20],
        "dkf": [I(k) for k in dkf],
        "ndkr": len(pats),
        "dkrm": dkrm,
        "weird": weird,
    }


def default_registry(datetime=False, disabled=()):
    """A fresh registry with the default content (never the process-global one)."""
    r = StringSerializableRegistry()
    r.add(cls=IntString)
    r.add(replace_types=(IntString,), cls=FloatString)
    r.add(cls=BooleanString)
    if datetime:
        # what --datetime does (with an explicit registry instead of the process-global one)
        from json_to_models.dynamic_typing import register_datetime_classes
        register_datetime_classes(r)
    for name in disabled:
        r.remove_by_name(name)
    return r

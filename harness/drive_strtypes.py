"""Driver for C09 (spec/StrTypes.tla, MC_StrTypes.tla, MC_StrGrammar.tla, Trace_StrTypes.tla)."""
import itertools
import warnings
import json
import math

from . import tlc
from .project import Interner, ALL_PSEUDO, accepts
from json_to_models.dynamic_typing import (StringSerializableRegistry, IntString, FloatString, BooleanString,
                                           IsoDateString, IsoTimeString, IsoDatetimeString, register_datetime_classes)
from json_to_models.generator import MetadataGenerator

warnings.filterwarnings("ignore")
CLS = {c.__name__: c for c in ALL_PSEUDO}
TOKENS = {"plus": "+", "minus": "-", "d": "7", "dd": "12", "zero": "0", "dlong": "1234567890123456789012",
          "dhuge": "9" * 320, "us": "_", "dot": ".", "e": "e", "E": "E", "ws": " ", "nl": "\n", "arab": "١٢",
          "nan": "nan", "inf": "inf", "Infinity": "Infinity", "true": "true", "True": "True", "TRUE": "TRUE",
          "false": "false", "date": "2020-01-02", "T": "T", "time": "10:20:30", "frac": ".123456", "tz": "+01:00",
          "Z": "Z", "x": "x", "colon": ":", "slash": "/"}
MC_STR = {"sA": "foo", "sInt": "1", "sFlt": "1.5", "sExp": "1e3", "sBool": "true", "sDate": "2020-01-02",
          "sTime": "10:20:30", "sDT": "2020-01-02T10:20:30", "sHuge": "9" * 320}

# strings that are detected with every registry, whatever the sampling stride
ALWAYS = {"12:" + "9" * 320, "1234567890123456789012:00", "9" * 25 + "-01-02", "9" * 320, "1e309", "", " 12 ", "1_000",
          # the last representable day plus the ISO "24:00" / last ISO week forms: one day past datetime.max inside the ISO parser
          "9999-12-31T24:00", "99991231T24", "9999-W52-6", "9999-W53-7", "9999-12-31T24:00Z", "0001-01-01T00:00:00-23:59", "9999-12-31T23:59:59+00:01"}

CFG_GRAMMAR = """SPECIFICATION Spec
CONSTANTS
  MaxTok = %d
  Emit = TRUE
INVARIANT EmitB
INVARIANT Bounded
CHECK_DEADLOCK FALSE
"""
CFG_STR = """SPECIFICATION Spec
CONSTANTS
  MaxOps = %d
  Emit = TRUE
  Idempotent = TRUE
INVARIANT DetectOK
INVARIANT ResolveOK
INVARIANT ReplOK
INVARIANT Unique
INVARIANT RemovedGone
INVARIANT EmitB
CHECK_DEADLOCK FALSE
"""


def corpus_from_tlc(chk, maxtok):
    r = chk.model_check("MC_StrGrammar", CFG_GRAMMAR % maxtok, "string grammar, <=%d tokens over 30 token kinds" % maxtok)
    out = []
    for t in tlc.printed_tuples(r["out"], "B"):
        out.append("".join(TOKENS[x] for x in json.loads(t[1])))
    return sorted(set(out))


def registries_from_tlc(chk, maxops):
    r = chk.model_check("MC_StrTypes", CFG_STR % maxops,
                        "registry state machine, <=%d register (repeatable) / disable-by-name / remove-class operations: DetectOK ResolveOK ReplOK Unique RemovedGone" % maxops)
    acc = tlc.printed_tuples(r["out"], "ACC")
    table = json.loads(acc[0][1])
    for sid, names in table.items():
        real = sorted(n for n, c in CLS.items() if accepts(c, MC_STR[sid]))
        if sorted(names) != real:
            chk.extra.setdefault("grounding_mismatch", []).append({"string": MC_STR[sid][:30], "model": sorted(names), "parsers": real})
            print("NOTE grounding: MC_StrTypes assumes %s for %r, the parsers say %s (model universe out of date; traces decide)" % (sorted(names), MC_STR[sid][:30], real))
    return [json.loads(t[1]) for t in tlc.printed_tuples(r["out"], "B")]


def canon_value(v):
    if isinstance(v, FloatString):
        f = float(v)
        return "nan" if math.isnan(f) else f.hex()
    if isinstance(v, BooleanString):
        return str(bool(v))
    if isinstance(v, IntString):
        return str(int(v))
    if isinstance(v, (IsoDatetimeString, IsoTimeString)):
        return v.isoformat() + "|" + repr(v.utcoffset() if isinstance(v, IsoDatetimeString) else v.tzinfo)
    if isinstance(v, IsoDateString):
        return v.isoformat()
    return repr(v)


def reg_state(reg):
    return {"types": [c.__name__ for c in reg.types], "repl": sorted([a.__name__, b.__name__] for a, b in reg.replaces)}


def build_registry(ops):
    """replay abstract ops on a real registry; returns (registry, RegOp events)"""
    reg = StringSerializableRegistry()
    reg.add(cls=IntString)
    reg.add(replace_types=(IntString,), cls=FloatString)
    reg.add(cls=BooleanString)
    evs = [dict({"ev": "RegOp", "op": "default", "arg": ""}, **reg_state(reg))]
    for op, arg in ops:
        if op == "datetime":
            register_datetime_classes(reg)
        elif op == "disable":
            reg.remove_by_name(arg)
        elif op == "remove":
            reg.remove(CLS[arg])
        evs.append(dict({"ev": "RegOp", "op": op, "arg": arg}, **reg_state(reg)))
    return reg, evs


def permuted_registry(order):
    reg = StringSerializableRegistry()
    for name in order:
        reg.add(replace_types=(IntString,) if name == "FloatString" and IntString in reg.types else (), cls=CLS[name])
    if FloatString in reg.types and IntString in reg.types:
        reg.replaces.add((IntString, FloatString))
    return reg


def strtypes_traces(chk, corpus, configs, extra_orders, detect_stride=1, pairs_per_registry=60):
    rng = chk.rng
    I = Interner()
    ids = [I(s) for s in corpus]
    acc = {}
    for s, sid in zip(corpus, ids):
        acc[sid] = [n for n, c in CLS.items() if accepts(c, s)]
    traces, inputs = [], {}
    regs = []
    for i, b in enumerate(configs):
        reg, evs = build_registry([tuple(o) for o in b["ops"]])
        if reg_state(reg)["types"] != b["types"]:
            # the model and the code disagree about the registry content: drift shows it; keep going with the real one
            pass
        regs.append(("ops%d" % i, reg, evs, {"ops": b["ops"]}))
    for i, order in enumerate(extra_orders):
        reg = permuted_registry(order)
        regs.append(("ord%d" % i, reg, [], {"order": order}))
    for name, reg, evs, inp in regs:
        gen = MetadataGenerator(str_types_registry=reg)
        st = reg_state(reg)
        # detection of every corpus string with this registry
        dets = []
        picked = [(s, sid) for k, (s, sid) in enumerate(zip(corpus, ids)) if k % detect_stride == 0 or s in ALWAYS]
        for s, sid in picked:
            try:
                t = gen._detect_type(s)
                dets.append({"ev": "Detect", "s": sid, "detected": t.__name__ if isinstance(t, type) else "",
                             "types": st["types"], "exc": "", "text": s[:40]})
            except Exception as e:
                dets.append({"ev": "Detect", "s": sid, "detected": "", "types": st["types"],
                             "exc": "%s: %s" % (type(e).__name__, str(e)[:60]), "text": s[:40]})
        for k in range(0, len(dets), 500):
            tid = "%s.det%d" % (name, k)
            traces.append({"id": tid, "events": (evs if k == 0 else []) + dets[k:k + 500]})
            inputs[tid] = dict(inp, kind="detect", strings=[corpus[j] for j in range(0, min(len(corpus), 3))])
        # strings side by side in one list: pairs of strings that several types accept
        amb = [(s_, sid_) for s_, sid_ in zip(corpus, ids) if len(acc[sid_]) >= 1][:: max(1, len(corpus) // 400)]
        amb += [(s_, ids[corpus.index(s_)]) for s_ in ("12", "10:30", "2018-01-02", "20180103", "2018-01-02T03:04:05", "1.5", "true", "1e3") if s_ in corpus]
        lst = []
        for _ in range(min(pairs_per_registry, len(amb) * 2)):
            (s1, i1), (s2, i2) = rng.choice(amb), rng.choice(amb)
            e = {"ev": "DetectList", "items": [i1, i2], "types": st["types"], "members": [], "exc": "", "text": "%r %r" % (s1[:20], s2[:20])}
            try:
                t = gen._detect_type([s1, s2])
                inner = t.type
                parts = inner.types if hasattr(inner, "types") else [inner]
                e["members"] = sorted({p.__name__ for p in parts if isinstance(p, type) and p.__name__ in CLS})
            except Exception as ex:
                e["exc"] = "%s: %s" % (type(ex).__name__, str(ex)[:60])
            lst.append(e)
        if lst:
            tid = "%s.lst" % name
            traces.append({"id": tid, "events": lst})
            inputs[tid] = dict(inp, kind="detect-list")
        # resolution of every non-empty subset of the registered types
        res = []
        for n in range(1, len(reg.types) + 1):
            for S in itertools.combinations(reg.types, n):
                try:
                    R = reg.resolve(*S)
                    res.append(dict({"ev": "Resolve", "S": [c.__name__ for c in S], "R": sorted(c.__name__ for c in R), "exc": ""}, **st))
                except Exception as e:
                    res.append(dict({"ev": "Resolve", "S": [c.__name__ for c in S], "R": [], "exc": type(e).__name__}, **st))
        # what generate() names in its output for a field that saw every accepted kind of string
        used = set()
        for s in corpus[:: max(1, len(corpus) // 200)]:
            try:
                m = gen.generate({"a": s}, {"a": [s]})
            except Exception:
                continue
            for t in _walk_types(m):
                if isinstance(t, type) and t.__name__ in CLS:
                    used.add(t.__name__)
        res.append({"ev": "Output", "types": st["types"], "used": sorted(used)})
        tid = "%s.res" % name
        traces.append({"id": tid, "events": res})
        inputs[tid] = dict(inp, kind="resolve")
    # round trips
    rts = []
    for s, sid in zip(corpus, ids):
        for n in acc[sid]:
            c = CLS[n]
            ev = {"ev": "Roundtrip", "t": n, "s": sid, "v1": "", "s2": "", "v2": "", "exc": ""}
            try:
                v1 = c.to_internal_value(s)
                s2 = v1.to_representation()
                v2 = c.to_internal_value(s2)
                ev.update(v1=canon_value(v1), v2=canon_value(v2), s2=I(s2))
            except Exception as e:
                ev["exc"] = "%s: %s" % (type(e).__name__, str(e)[:80])
            ev["text"] = s[:40]
            rts.append(ev)
    for k in range(0, len(rts), 400):
        tid = "rt%d" % k
        traces.append({"id": tid, "events": rts[k:k + 400]})
        inputs[tid] = {"kind": "roundtrip", "first": rts[k]["text"]}
    return traces, inputs, {"acc": acc}, I


def _walk_types(m):
    if isinstance(m, dict):
        for v in m.values():
            yield from _walk_types(v)
    elif isinstance(m, type):
        yield m
    else:
        try:
            for x in m:
                yield from _walk_types(x)
        except TypeError:
            pass

"""Driver for the emitted-module family (spec/Render.tla, Trace_Module.tla): C01 (emitted), C03, C04, C10, C11, C12, C18."""
import json
import re

from unidecode import unidecode

from . import tlc
from .project import Interner, N, val_node, make_env, accepts, ALL_PSEUDO
from . import drive_infer as DI
from . import drive_registry as DR
from . import loadmod as LM
from .drive_strtypes import canon_value
from json_to_models.dynamic_typing import StringSerializable

FRAMEWORKS = ["base", "pydantic", "sqlmodel", "attrs", "dataclasses"]
CLS = {c.__name__: c for c in ALL_PSEUDO}


def _ident_chars(key):
    """the characters of a key an identifier can hold, normalised as the compiler normalises names (non-identifier characters go
    first: a fraction or a superscript does not turn into digits), up to a fixed point"""
    import unicodedata
    s, prev = key, None
    while prev != s:
        prev = s
        s = "".join(ch for ch in s if ("a" + ch).isidentifier())
        s = unicodedata.normalize("NFKC", s)
    return s


def key_facts(key, convert_unicode=True):
    t = unidecode(key)
    fold = re.sub(r"[^0-9a-zA-Z]", "", t).lower()
    # the label pipeline drops every non-word character first: what leads the key is its first WORD character
    first = re.sub(r"\W", "", key)[:1]
    if not convert_unicode:
        # without transliteration "punctuation" is whatever cannot be part of an identifier (superscripts, fractions, a combining mark
        # with nothing to sit on), and case / compatibility variants fold together (NFKC + casefold, as the compiler reads names)
        import unicodedata
        ident = _ident_chars(key)
        first = ident[:1]
        body = ident.replace("_", "")
        while body and not body[0].isidentifier() and unicodedata.digit(body[0], None) is None:
            body = body[1:]
        fold = body.casefold()
    lead = "alpha" if first.isalpha() else "digit" if first.isdigit() else "under" if first == "_" else "other"
    return {"fold": fold, "letter": bool(re.search(r"[a-zA-Z]", t)), "lead": lead}


def inst_node(v, I):
    """value held by a constructed instance -> node (converted strings are tagged with class and canonical value)"""
    if v is None:
        return N("null")
    if isinstance(v, StringSerializable):
        return N("conv", type(v).__name__, ls=[I(canon_value(v))])
    if isinstance(v, bool):
        return N("bool")
    if type(v) is int:
        return N("int")
    if type(v) is float:
        return N("float")
    if type(v) is str:
        return N("str", I(v))
    if isinstance(v, list):
        return N("list", xs=[inst_node(x, I) for x in v])
    if isinstance(v, dict):
        return N("obj", xs=[inst_node(x, I) for x in v.values()], ks=[I(k) for k in v.keys()])
    return N("weird", type(v).__name__[:30])


def _all_keys(v, out):
    if isinstance(v, dict):
        for k, x in v.items():
            out.add(k)
            _all_keys(x, out)
    elif isinstance(v, list):
        for x in v:
            _all_keys(x, out)


def _all_strings(v, out):
    if isinstance(v, str):
        out.add(v)
    elif isinstance(v, dict):
        for x in v.values():
            _all_strings(x, out)
    elif isinstance(v, list):
        for x in v:
            _all_strings(x, out)


def module_event(roots, envspec, policy, fw, layout, kw=None, I=None, want=(), indomain=True):
    """Run the whole pipeline on the real code, load the result, introspect; return the Module event."""
    I = I or Interner()
    kw = dict(kw or {})
    res = LM.run_pipeline(roots, envspec, policy, fw, layout, kw, I)
    ev = {"ev": "Module", "exc": res.exc, "stage": res.stage,
          "roots": [{"samples": [val_node(s, I) for s in samples], "name": name} for name, samples in roots],
          "rootIx": res.roots_ix,
          "opts": {"fw": fw, "layout": layout, "maxlit": int(kw.get("max_literals", 10)), "meta": bool(kw.get("meta", False)),
                   "styled": "types_style" in kw,
                   "post": bool(kw.get("post_init_converters", False)) and fw in ("attrs", "dataclasses", "base"),
                   "cu": bool(kw.get("convert_unicode", True))},
          "graph": {"models": [], "next": 0}, "labels": {}, "parse_exc": "", "exec_exc": "", "classes": [],
          "mod": {"imports": [], "classes": [], "order": []}, "pyd": [], "constructs": [], "keyfacts": {}, "parsed": {},
          "indomain": bool(indomain), "namesdomain": True, "text": res.text}
    keys = set()
    for _, samples in roots:
        _all_keys(samples, keys)
    ev["keyfacts"] = {I(k): key_facts(k, kw.get("convert_unicode", True)) for k in keys}
    for f in ev["keyfacts"].values():
        f["fold"] = I(f["fold"])
    if res.get("names_before"):
        # model names that are equal after case/punctuation folding collide as class names (fold-equal keys in different
        # objects): the "folded-equal keys" known finding of C11 -> such inputs are out of the documented domain
        folds = [key_facts(n or "", kw.get("convert_unicode", True))["fold"] for n in res["names_before"].values()]
        if len(set(folds)) != len(folds):
            ev["indomain"] = False
            ev["namesdomain"] = False
    if not res.exc:
        g, labels = LM.graph_with_names(res, I)
        ev["graph"], ev["labels"] = g, labels
        ns, perr, xerr = LM.load_text(res.text)
        ev["parse_exc"], ev["exec_exc"] = perr, xerr
        if not perr:
            try:
                ev["mod"] = LM.text_facts(res.text, I)
            except Exception as e:
                ev["parse_exc"] = DI.exc_name(e)
        if ns is not None and not perr and not xerr:
            ev["classes"] = LM.introspect(ns, fw, I)
            classes = LM.module_classes(ns)
            by_name = {c.__name__: (c, chain) for _, c, chain in classes}
            if fw in ("pydantic", "sqlmodel") and ("C01" in want):
                ok_refs = True
                top = {k: v for k, v in ns.items() if not k.startswith("__")}
                for _, c, chain in classes:
                    try:
                        c.update_forward_refs(**dict(top, **LM.scope_of(ns, c, chain)))
                    except Exception:
                        ok_refs = False
                for i, ((name, samples), ptr) in enumerate(zip(roots, res.root_ptrs)):
                    rc = by_name.get(ptr.type.name)
                    for j, s in enumerate(samples):
                        if rc is None:
                            ev["pyd"].append({"root": i + 1, "sample": j + 1, "ok": False, "err": "no root class"})
                            continue
                        try:
                            rc[0].parse_obj(json.loads(json.dumps(s)))
                            ev["pyd"].append({"root": i + 1, "sample": j + 1, "ok": True, "err": ""})
                        except Exception as e:
                            ev["pyd"].append({"root": i + 1, "sample": j + 1, "ok": False, "err": DI.exc_name(e)})
            if fw in ("attrs", "dataclasses") and ("C18" in want or "C01" in want):
                strings = set()
                for _, samples in roots:
                    _all_strings(samples, strings)
                parsed = {}
                for cname, c in CLS.items():
                    row = {}
                    for s in strings:
                        try:
                            row[I(s)] = I(canon_value(c.to_internal_value(s)))
                        except Exception:
                            pass
                    parsed[cname] = row
                ev["parsed"] = parsed
                for i, ((name, samples), ptr) in enumerate(zip(roots, res.root_ptrs)):
                    rc = by_name.get(ptr.type.name)
                    if rc is None:
                        continue
                    model = ptr.type
                    for j, s in enumerate(samples):
                        c = {"root": i + 1, "sample": j + 1, "exc": "", "known": False, "values": {}, "orig": {}}
                        for k, v in s.items():
                            c["orig"][I(k)] = val_node(v, I)
                        shared = json.loads(json.dumps(s))      # one copy of the sample, used for BOTH constructions below
                        try:
                            kwargs = {I.text(labels[I(k)]): v for k, v in shared.items()}
                            inst = rc[0](**kwargs)
                            for k, v in s.items():
                                c["values"][I(k)] = inst_node(getattr(inst, I.text(labels[I(k)])), I)
                        except Exception as e:
                            c["exc"] = DI.exc_name(e)
                        ev["constructs"].append(c)
                        # the same sample values again (a caller keeps its data and builds another instance from it)
                        c2 = {"root": i + 1, "sample": j + 1, "exc": "", "known": False, "values": {}, "orig": dict(c["orig"]), "again": True}
                        try:
                            inst2 = rc[0](**{I.text(labels[I(k)]): v for k, v in shared.items()})
                            for k, v in s.items():
                                c2["values"][I(k)] = inst_node(getattr(inst2, I.text(labels[I(k)])), I)
                        except Exception as e:
                            c2["exc"] = DI.exc_name(e)
                        if not c["exc"]:
                            ev["constructs"].append(c2)
    ev["env"] = make_env(I, res.sreg, dkf=envspec.get("dkf", ()), dkr=envspec.get("dkr", ()))
    return ev


def trace_of(tid, events, inp):
    # the text is for the replay file only; TLC does not need it
    for e in events:
        e.pop("text", None)
    return {"id": tid, "events": events}, inp


# ---------------------------------------------------------------------- input generators
WORDS = ["name", "value", "item", "user", "data", "list", "type", "class", "id", "count", "date", "time", "field", "attr",
         "optional", "any", "union", "dict", "model", "base", "from", "import", "none", "true", "pass", "self", "json",
         "literal", "schema", "object", "str", "int", "float", "print", "max", "def", "is", "in", "async", "field_", "état",
         "größe", "naïve", "имя", "όνομα", "x", "a1", "b2c", "schema_json", "parse_obj", "copy", "fields", "validate", "config",
         "construct", "update_forward_refs", "from_orm", "metadata", "dataclass", "convert_strings"]


def styled_key(rng):
    """a key in one of the realistic styles of C03 (never starting with digit/underscore)"""
    n = rng.choice([1, 1, 2, 2, 3])
    ws = [rng.choice(WORDS) for _ in range(n)]
    style = rng.choice(["snake", "camel", "kebab", "pascal", "upper", "digit", "plain"])
    if style == "snake":
        return "_".join(ws)
    if style == "camel":
        return ws[0] + "".join(w.capitalize() for w in ws[1:])
    if style == "kebab":
        return "-".join(ws)
    if style == "pascal":
        return "".join(w.capitalize() for w in ws)
    if style == "upper":
        return "_".join(w.upper() for w in ws)
    if style == "digit":
        return ws[0] + str(rng.randrange(10)) + "".join(ws[1:])
    return "".join(ws)


def distinct_keys(rng, n, gen=styled_key, folds=None):
    out, folds = [], (set() if folds is None else folds)
    tries = 0
    while len(out) < n and tries < 100:
        tries += 1
        k = gen(rng)
        f = key_facts(k)
        if not f["letter"] or f["lead"] != "alpha" or f["fold"] in folds or not f["fold"]:
            continue
        folds.add(f["fold"])
        out.append(k)
    return out


LEAVES = [1, 2.5, "s", "1", "true", None, True, [], [1], ["a", "b"], {}, "2020-01-02", "2020-01-02T10:20:30", "10:20:30", "a\u2028b", "x\x85", "p\x0cq", "l1\nl2"]


def random_graph_input(rng, depth=0, folds=None, parent_key=None):
    """nested objects under styled keys: class names, field names and references all come from the key styles.
    Keys are pairwise distinct after case/punctuation folding over the WHOLE input (merging can bring any two together)."""
    folds = set() if folds is None else folds
    ks = distinct_keys(rng, rng.randint(1, 4), folds=folds)
    obj = {}
    if parent_key and rng.random() < 0.12:
        # a key spelled exactly like the class name its own object gets (XML-ish data: {"Item": {"Item": ...}})
        import inflection
        try:
            own = inflection.camelize(inflection.singularize(inflection.underscore(parent_key)))
            fo = key_facts(own)
            if fo["fold"] and fo["fold"] not in folds and fo["letter"] and fo["lead"] == "alpha":
                folds.add(fo["fold"])       # stays inside the documented domain: fold-distinct over the whole input
                obj[own] = rng.choice(LEAVES)
        except Exception:
            pass
    for k in ks:
        c = rng.random()
        if depth < 2 and c < 0.35:
            obj[k] = random_graph_input(rng, depth + 1, folds, k)
        elif depth < 2 and c < 0.5:
            obj[k] = [random_graph_input(rng, depth + 1, folds, k) for _ in range(rng.randint(1, 2))]
        elif depth < 2 and c < 0.55:
            obj[k] = {"x": 1, "inner": random_graph_input(rng, depth + 1, folds, "inner")}
        else:
            obj[k] = rng.choice(LEAVES)
    return obj


def perturb(rng, s):
    s = json.loads(json.dumps(s))
    for k in list(s):
        c = rng.random()
        if c < 0.15:
            del s[k]
        elif c < 0.3:
            s[k] = None
        elif c < 0.4 and not isinstance(s[k], (dict, list)):
            s[k] = rng.choice(LEAVES)
    return s


def random_kw(rng, fw):
    kw = {}
    if rng.random() < 0.5:
        kw["max_literals"] = rng.choice([0, 1, 2, 3, 10, 16])
    if fw in ("attrs", "dataclasses"):
        if rng.random() < 0.5:
            kw["meta"] = True
        if rng.random() < 0.5:
            kw["post_init_converters"] = True
    if fw == "base" and rng.random() < 0.3:
        kw["post_init_converters"] = False
    if rng.random() < 0.25:
        kw["convert_unicode"] = False
    return kw


ROOT_NAMES = ["Root", "Root", "Root", "Config", "List", "Item", "class", "1st", "Été", "my-root", "Field", "json"]


def shared_nested_input(rng):
    """one root; two nested objects each holding an object of the same shape: that model is shared by two nested models of a
    single root (nested layout: placed in the root with an absolute path reference)"""
    ka, kb, kx, ky = distinct_keys(rng, 4)
    inner = {"k": 1, "j": rng.choice(["p", 2, None])}
    return {ka: {"x1": 1, kx: dict(inner)}, kb: {"y1": "s", ky: dict(inner)}, "z9": rng.choice(LEAVES[:5])}


def module_cases_random(chk, n):
    rng = chk.rng
    cases = []
    # the listed finding K-C01-datetime-without-date, exercised on every run
    cases.append(dict(roots=[("Root", [{"d": "2021-03-05"}, {"d": "2021-03-05T10:00:00"}])], envspec={"datetime": True, "disabled": ["date"]},
                      policy=DR.POLICIES[1], fw="pydantic", layout="flat", kw={}))
    for _ in range(n):
        base = shared_nested_input(rng) if rng.random() < 0.15 else random_graph_input(rng)
        samples = [base] + [perturb(rng, base) for _ in range(rng.choice([0, 1, 2]))]
        fw = rng.choice(FRAMEWORKS)
        cases.append(dict(roots=[(rng.choice(ROOT_NAMES), samples)], envspec=rng.choice([{}, {}, {"datetime": True}]),
                          policy=rng.choice(DR.POLICIES[:3]), fw=fw, layout=rng.choice(["flat", "nested"]),
                          kw=random_kw(rng, fw)))
    return cases


def module_traces(pid, chk, cases, prefix="m"):
    traces, inputs = [], {}
    for i, c in enumerate(cases):
        tid = "%s%d" % (prefix, i)
        I = Interner()
        if pid == "C12":
            evs = [module_event(c["roots"], c["envspec"], c["policy"], c["fw"], lay, c["kw"], I, want=(pid,)) for lay in ("flat", "nested")]
        else:
            evs = [module_event(c["roots"], c["envspec"], c["policy"], c["fw"], c["layout"], c["kw"], I, want=(pid,),
                                indomain=c.get("indomain", True))]
        texts = [e.get("text") for e in evs]
        c_json = dict(c, kw={k: (v if k != "types_style" else "override: %r" % {getattr(a, "__name__", str(a)): b for a, b in v.items()})
                             for k, v in c["kw"].items()})
        t, inp = trace_of(tid, evs, dict(c_json, texts=texts))
        traces.append(t)
        inputs[tid] = inp
    return traces, inputs


# ---------------------------------------------------------------------- C10: literal sets
# (a lone surrogate is what json.loads makes of an unpaired \\ud83d escape: legal JSON, e.g. a truncated emoji)
LIT_ALPHABET = ["'", '"', "\\", "\n", ",", " ", "a", "é", "\U0001F600", "}", ".", "b", "{", "\t", " ", "\ud83d", "\udc00"]
COLLIDE = ["a", "a,a", "a,a,a", "...", ",", "a,", ",a"]


def lit_string(rng, length):
    # as JSON data: a high surrogate directly followed by a low one IS one non-BMP character once it went through a JSON document
    return json.loads(json.dumps("".join(rng.choice(LIT_ALPHABET) for _ in range(length))))


def literal_cases(chk, n):
    """field `a` sees `count` distinct plain strings with a chosen longest length; optional pseudo-typed/other company"""
    rng = chk.rng
    cases = []
    for i in range(n):
        count = rng.choice([0, 1, 2, 3, 9, 10, 11, 14, 15, 16, 17])
        longest = rng.choice([1, 2, 3, 3, 19, 20, 21])
        strs = set()
        family = rng.random() < 0.2 and count >= 3
        if family:
            t = rng.choice(["a", "b", "é", "x y", "'"])
            strs.update([t, t + "," + t, t + "," + t + "," + t])
        elif rng.random() < 0.3:
            strs.update(rng.sample(COLLIDE, min(count, rng.randint(2, 4))))
        tries = 0
        while len(strs) < count:
            tries += 1
            L = longest if len(strs) == 0 else rng.randint(1, min(max(longest, 2 + tries // 50), 4))
            strs.add(lit_string(rng, L))
        strs = sorted(strs, key=len) if family and rng.random() < 0.7 else sorted(strs)
        if not family:
            rng.shuffle(strs)
        company = rng.choice([None, None, "1", 1, None, "1.5"])
        in_list = rng.random() < 0.25
        samples = []
        for s in strs:
            samples.append({"a": [s] if in_list else s, "b": 1})
        if family and rng.random() < 0.6:
            # the members of a comma-join family side by side in one list, and joined in another
            t = min(strs, key=len)
            samples = [{"a": [t + "," + t], "b": 1}, {"a": [t, t], "b": 2}, {"a": [t, t + "," + t + "," + t], "b": 3}]
            parts = rng.sample(["x", "y", "é", "'"], 2)
            samples += [{"a": [",".join(parts)], "b": 4}, {"a": list(parts), "b": 5}]
        if company is not None or not samples:
            samples.append({"a": [company] if in_list and company is not None else company, "b": 2})
        if rng.random() < 0.3 and strs:
            samples.append({"a": [strs[0]] if in_list else strs[0], "b": 3})   # repetition
        fw = rng.choice(FRAMEWORKS)
        kw = {"max_literals": rng.choice([0, 1, 2, 3, 4, 10, 11, 12, 15, 16])}
        if rng.random() < 0.3:
            kw = {}
        if rng.random() < 0.08:
            # a caller that overrides the literal style explicitly (public `types_style` argument): such calls are not judged
            # by the literal rule themselves, but nothing of their options may survive into later calls
            from json_to_models.dynamic_typing import StringLiteral
            kw = dict(kw, types_style={StringLiteral: {StringLiteral.TypeStyle.use_literals: rng.random() < 0.7}})
        cases.append(dict(roots=[("Root", samples)], envspec={}, policy=DR.POLICIES[1], fw=fw,
                          layout=rng.choice(["flat", "nested"]), kw=kw))
    return cases


# ---------------------------------------------------------------------- C11: wide-alphabet keys
KEY_ALPHABET = list("abcxyzABZ019") + ["_", "-", " ", ".", '"', "'", "\\", "/", "$", "é", "ß", "я", "名", "Ω", ":", "#",
                                        "\u2028", "\x85", "\n", "\t", "\x0c",
                                        # compatibility characters: letters / digits to `\w`, but Python normalises identifiers (NFKC) -- micro sign,
                                        # fi ligature, full-width i, superscript two, vulgar half
                                        "\u00b5", "\ufb01", "\uff49", "\u00b2", "\u00bd",
                                        # digits of other scripts (legal inside an identifier, not at its start), combining vowel signs (legal
                                        # inside an identifier although not `\w`), letters of scripts without case
                                        "\u0663", "\u0969", "\u093f", "\u093e", "\u0e34", "\u0926", "\u0e01", "\u6570"]


def wide_key(rng):
    n = rng.randint(1, 7)
    k = "".join(rng.choice(KEY_ALPHABET) for _ in range(n))
    if rng.random() < 0.3:
        k = rng.choice(WORDS) + rng.choice(["", "-", " ", ".", '"']) + k
    if rng.random() < 0.25:
        # characters that need escaping inside the quoted alias / metadata string
        pos = rng.randint(0, len(k))
        k = k[:pos] + rng.choice(['"', "\\", '\\"', "'"]) + k[pos:]
    return k


def key_cases(chk, n):
    rng = chk.rng
    cases = []
    for i in range(n):
        nk = rng.randint(1, 3)
        indomain = rng.random() < 0.85
        cu = rng.random() >= 0.4          # unicode conversion on / off: folding (what counts as the same key) depends on it
        if indomain:
            keys, folds = [], set()
            tries = 0
            while len(keys) < nk and tries < 200:
                tries += 1
                k = wide_key(rng)
                f = key_facts(k, cu)
                if not f["letter"] or f["lead"] in ("under", "other") or not f["fold"] or f["fold"] in folds:
                    continue
                # leading punctuation is stripped by the label pipeline: keep the first letter-ish
                folds.add(f["fold"])
                keys.append(k)
        else:
            base = wide_key(rng)
            keys = [base, rng.choice([base.upper(), base + "-", "_" + base, base.replace("a", "A"), "_x", "__"])][:nk]
            keys = list(dict.fromkeys(keys))
        obj = {k: rng.choice([1, "s", None, [1], {"q": 1}]) for k in keys}
        nested_key = wide_key(rng) if rng.random() < 0.5 else "child"
        samples = [dict(obj), dict(obj)]
        if rng.random() < 0.5 and key_facts(nested_key, cu)["letter"] and key_facts(nested_key, cu)["lead"] == "alpha" \
                and key_facts(nested_key, cu)["fold"] not in ({"z9"} | {key_facts(k, cu)["fold"] for k in keys}):
            samples[0] = {nested_key: dict(obj), "z9": 1}
            samples[1] = {nested_key: dict(obj), "z9": None}
        fw = rng.choice(FRAMEWORKS)
        if any(ch in k_ for k_ in keys for ch in '"\\') and rng.random() < 0.6:
            fw = rng.choice(["pydantic", "sqlmodel"])        # the frameworks that write the key into the code as an alias
        kw = {}
        if fw in ("attrs", "dataclasses"):
            kw["meta"] = rng.random() < 0.7
        if not cu:
            kw["convert_unicode"] = False
        cases.append(dict(roots=[("Root", samples)], envspec={}, policy=DR.POLICIES[1], fw=fw,
                          layout=rng.choice(["flat", "nested"]), kw=kw, indomain=indomain))
    # a key that starts with a digit next to its own spelled-out form: the digit rule turns "1a" into "one_a" (distinct after case /
    # punctuation folding, so inside the documented domain): listed known finding of C11
    for fw in ("pydantic", "dataclasses"):
        cases.append(dict(roots=[("Root", [{"1a": 1, "one_a": "x", "z": 1}, {"1a": 2, "one_a": "y", "z": 2}])], envspec={}, policy=DR.POLICIES[1],
                          fw=fw, layout="flat", kw={"meta": True} if fw == "dataclasses" else {}, indomain=True))
    return cases


# ---------------------------------------------------------------------- fixed cases (constructs the random inputs reach only by luck)
def fixed_module_cases():
    """small deterministic inputs, one per construct of the emitted code that has its own import or helper"""
    s_opt = [{"n": "1", "f": "1.5", "b": "true", "g": 1}, {"g": 2}]                 # Optional pseudo-typed fields
    s_cont = [{"l": [1], "d": {"k1": 1}, "o": {"x": 1}, "g": 1}, {"g": 2}]          # optional containers / nested model
    cases = []
    for fw in FRAMEWORKS:
        for kw in ({}, {"post_init_converters": True}):
            if kw and fw not in ("attrs", "dataclasses", "base"):
                continue
            cases.append(dict(roots=[("Root", s_opt)], envspec={}, policy=DR.POLICIES[1], fw=fw, layout="flat", kw=dict(kw)))
            cases.append(dict(roots=[("Root", s_cont)], envspec={"dkr": [r"k\d"]}, policy=DR.POLICIES[1], fw=fw, layout="nested", kw=dict(kw)))
    return cases


# ---------------------------------------------------------------------- names a generated module imports or defines
IMPORTED_NAMES = ["IntString", "FloatString", "BooleanString", "IsoDateString", "IsoTimeString", "IsoDatetimeString",
                  "Optional", "List", "Dict", "Any", "Union", "Literal", "BaseModel", "Field", "SQLModel", "attr", "field", "dataclass",
                  "optional", "convert_strings", "ClassType", "datetime", "date", "time", "Config", "typing", "pydantic", "attrs",
                  "dataclasses", "json_to_models", "annotations", "METADATA_FIELD_NAME",
                  # attributes every class has (from `type`) or every pydantic model has
                  "register", "mro", "dict", "schema", "copy", "json", "construct", "validate", "fields", "update_forward_refs"]


def reserved_name_cases(chk, n):
    """A key named after something the emitted module imports / uses (as written and in snake case), once holding an object (class
    name) and once a scalar (field name), in a module made to import as much as it can: every string pseudo-type incl. the ones
    --datetime registers after import time, Optional, List, Dict, Literal, the framework's own names."""
    import inflection
    rng = chk.rng
    combos = [(nm, var, obj, fw) for nm in IMPORTED_NAMES for var in ("asis", "snake") for obj in (True, False) for fw in FRAMEWORKS]
    rng.shuffle(combos)
    # stratified: every name as a class under three of the five frameworks and once as a field, then whatever the budget still allows
    first = []
    for nm in IMPORTED_NAMES:
        for fw in rng.sample(FRAMEWORKS, 3):
            first.append((nm, rng.choice(["asis", "snake"]), True, fw))
        first.append((nm, rng.choice(["asis", "snake"]), False, rng.choice(FRAMEWORKS)))
    combos = first + [c for c in combos if c not in first]
    cases = []
    for nm, var, obj, fw in combos[:max(n, len(first))]:
        key = nm if var == "asis" else inflection.underscore(nm)
        rich = {"zz_i": "1", "zz_f": "1.5", "zz_b": "true", "zz_d": "2020-01-02", "zz_t": "10:20:30", "zz_dt": "2020-01-02T10:20:30",
                "zz_l": ["a", "b"], "zz_m": {"k1": 1, "k2": 2}, "zz_o": None}
        val = {"inner_x": 1, "zz_d": "1999-12-31", "zz_t": "23:59"} if obj else rng.choice([1, "s", "2020-01-02", [1]])
        samples = [dict(rich, **{key: val}), dict({k: v for k, v in rich.items() if k != "zz_o"}, **{key: val})]
        kw = {}
        if fw in ("attrs", "dataclasses"):
            kw["meta"] = rng.random() < 0.5
            kw["post_init_converters"] = rng.random() < 0.5
        cases.append(dict(roots=[("Root", samples)], envspec={"datetime": True, "dkr": [r"k\d"]}, policy=DR.POLICIES[1], fw=fw,
                          layout=rng.choice(["flat", "nested"]), kw=kw, key=key))
    return cases


# ---------------------------------------------------------------------- C12: tree-shaped graphs
def tree_cases(chk, n):
    rng = chk.rng
    cases = []
    for i in range(n):
        base = random_graph_input(rng)
        if i % 7 == 3:
            # object-valued keys that do not start with a letter (JSON-LD, JSON Schema, Mongo, XML-to-JSON, years): the class made for the
            # object and the field that holds it must still be two names -- in the nested layout they live in one class body
            ks = rng.sample(["@context", "$ref", "2020", "1st", "#text", "@type", "$date", "3d_model"], rng.choice([1, 2, 3]))
            base = {k: {"v%d" % j: rng.choice([1, "s", 2.5]), "w": j} for j, k in enumerate(ks)}
            base["name"] = "x"
            if rng.random() < 0.5:
                base[ks[0]]["inner"] = {"deep": 1, ks[-1]: {"z": 1}}
        samples = [base] + [perturb(rng, base) for _ in range(rng.choice([0, 1]))]
        fw = rng.choice(FRAMEWORKS)
        pol = rng.choice([[("number", 20)], [("number", 20)], [("exact", 0)], DR.POLICIES[1]])
        cases.append(dict(roots=[("Root", samples)], envspec=rng.choice([{}, {"datetime": True}]), policy=pol, fw=fw,
                          layout="flat", kw=random_kw(rng, fw)))
    return cases


# ---------------------------------------------------------------------- C18: converter paths
PSEUDO_LEAVES = {"IntString": ["1", "-7", "12"], "FloatString": ["1.5", "12", "1", "1.0"], "BooleanString": ["true", "False", "TRUE"],
                 "IsoDateString": ["2020-01-02", "1999-12-31"], "IsoTimeString": ["10:20:30", "23:59"],
                 "IsoDatetimeString": ["2020-01-02T10:20:30", "2020-01-02T10:20:30+01:00"]}


# near misses: decorated spellings of what the parsers accept (padding, sign, exponent, underscores, non-ASCII digits, nan/inf).
# Whatever detection makes of them, detection and conversion must agree (the model must construct from its own samples).
NEAR = ["true ", " TRUE", "false\n", " 1", "1 ", "\t2.5", "1_000", "+1", "1e3", "\u0661\u0662", "2020-01-02 ", " 10:20:30",
        "2020-01-02T10:20:30 ", "NaN", "inf", "-0", "True\u00a0", "0x10", "1.", ".5"]


def path_value(rng, path, leaves):
    """value whose inferred type nests List / Dict (keys k1, k2 -> matched by the dict-keys regex) around the leaf"""
    if not path:
        return rng.choice(leaves)
    tok, rest = path[0], path[1:]
    if tok == "L":
        return [path_value(rng, rest, leaves) for _ in range(rng.choice([0, 1, 2]))]
    if tok == "D":
        return {k: path_value(rng, rest, leaves) for k in rng.sample(["k1", "k2", "k3"], rng.choice([0, 1, 2]))}
    raise ValueError(tok)


def converter_cases(chk, n):
    rng = chk.rng
    cases = []
    for i in range(n):
        fields = {}
        nf = rng.randint(1, 3)
        samples = [{}, {}, {}]
        for f in range(nf):
            name = "f%d" % f
            ptype = rng.choice(list(PSEUDO_LEAVES) + ["plain", "int", "near", "near"])
            leaves = PSEUDO_LEAVES.get(ptype) or (["foo", "bar"] if ptype == "plain" else [3, 4])
            if ptype == "near":
                leaves = [rng.choice(NEAR)] if rng.random() < 0.6 else rng.sample(NEAR, 2)
            path = [rng.choice("LD") for _ in range(rng.choice([0, 0, 1, 1, 2, 3]))]
            optional = rng.random() < 0.4
            for j, s in enumerate(samples):
                if optional and j == 1:
                    if rng.random() < 0.5:
                        s[name] = None
                    continue
                s[name] = path_value(rng, path, leaves)
        fw = rng.choice(["attrs", "dataclasses"])
        kw = {"post_init_converters": rng.random() < 0.7}
        if rng.random() < 0.3:
            kw["meta"] = True
        cases.append(dict(roots=[("Root", samples)], envspec={"datetime": True, "dkr": [r"k\d"]}, policy=DR.POLICIES[1], fw=fw,
                          layout="flat", kw=kw))
    # a key with two leading underscores (OData's "__count", "__metadata"): the field name is class-private, Python mangles it in the class
    # body, the converter path still carries the literal name: listed known finding of C18
    for fw in ("attrs", "dataclasses"):
        cases.append(dict(roots=[("Root", [{"__count": "504", "n": 1}, {"__count": "7", "n": 2}])], envspec={}, policy=DR.POLICIES[1], fw=fw,
                          layout="flat", kw={"post_init_converters": True}))
    return cases


# ---------------------------------------------------------------------- MC_Lit behaviours
CFG_LIT = """SPECIFICATION Spec
CONSTANTS
  MaxCount = %d
  Emit = TRUE
INVARIANT LitRule
CHECK_DEADLOCK FALSE
"""
LIT_POOL = ["alpha", "b", "c c", "d'", 'e"', "f\\", "g,h", "é", "\U0001F600", "j\nk", "l.", "m}", "{n", "o\t", "p:p", "q;", "rr"]


def mc_lit_cases(chk, maxcount=17):
    r = chk.model_check("MC_Lit", CFG_LIT % maxcount, "literal rule at design level: Generate + Render!Ann on every case "
                        "(count 0..%d, long string first/last/none, int-like company, max in {0,1,2,3,10,15,16,17}, 4 frameworks, 3 sample rotations): LitRule" % maxcount)
    cases = []
    for t in tlc.printed_tuples(r["out"], "B"):
        b = json.loads(t[1])
        strs = [LIT_POOL[i] for i in range(b["count"])]
        if b["longAt"]:
            strs[b["longAt"] - 1] = "x" * 19 + LIT_POOL[b["longAt"] - 1][:1]        # 20 characters
        samples = [{"a": s, "b": 1} for s in strs] + ([{"a": "1", "b": 2}] if b["company"] else [])
        k = b["rot"] % max(1, len(samples))
        samples = samples[k:] + samples[:k]
        cases.append(dict(roots=[("Root", samples)], envspec={}, policy=DR.POLICIES[1], fw=b["fw"], layout="flat",
                          kw={"max_literals": b["maxlit"]}))
    return cases


# ---------------------------------------------------------------------- Labels.tla
CFG_LABELS = """SPECIFICATION Spec
CONSTANTS
  MaxLen = %d
  Emit = TRUE
INVARIANT Valid
INVARIANT ClassVsField
INVARIANT Injective
CHECK_DEADLOCK FALSE
"""


def label_traces(chk, maxlen):
    """MC_Labels: the label pipeline transcribed over a small alphabet; every key compared with the real prepare_label"""
    from json_to_models.models.base import prepare_label
    r = chk.model_check("MC_Labels", CFG_LABELS % maxlen, "label pipeline (strip non-word characters, leading digit rule, inflection.underscore, "
                        "reserved-word suffix, class-name capitalisation) on every pair of keys of <=%d characters over {a,B,f,i,1,_,-}: Valid ClassVsField Injective" % maxlen,
                        workers=1)
    evs = []
    for t in tlc.printed_tuples(r["out"], "B"):
        b = json.loads(t[1])
        key = "".join(b["key"])
        ev = {"ev": "Label", "key": list(key), "field": [], "cls": [], "clsname": [], "exc": ""}
        try:
            ev["field"] = list(prepare_label(key, convert_unicode=True, to_snake_case=True))
            ev["cls"] = list(prepare_label(key, convert_unicode=True, to_snake_case=False))
            from json_to_models.models.base import GenericModelCodeGenerator
            from json_to_models.dynamic_typing import ModelMeta
            mm = ModelMeta({"a": int}, "1")
            mm.name = "Dummy"
            ev["clsname"] = list(GenericModelCodeGenerator(mm).convert_class_name(key))
        except Exception as e:
            ev["exc"] = DI.exc_name(e)
        evs.append(ev)
    traces = [{"id": "lab%d" % i, "events": evs[i:i + 100]} for i in range(0, len(evs), 100)]
    inputs = {t["id"]: {"first_key": "".join(t["events"][0]["key"])} for t in traces}
    return traces, inputs


LENIENT_DATETIME = ["Sun", "May", "friday", "10:30 AM", "3pm", "2018-01", "2018-01-02T03", "2018-W01-1", "2018-001"]


def mixed_pseudo_cases(chk, n):
    """a field that sees strings of two different pseudo-types (or a pseudo-typed and a plain one), across samples or in one
    list: whatever they resolve to, the emitted model must still accept every sample (C01 at the emitted level)"""
    rng = chk.rng
    kinds = list(PSEUDO_LEAVES) + ["plain"]
    pairs = [(a, b) for a in kinds for b in kinds if a < b]
    cases = []
    # strings the library's date / time detection accepts although they are not in the formats of the emitted annotation's own parser
    # (dateutil's fuzzy time parser: weekday and month names, 12-hour clock; every isoparse format: year-month, week dates, ordinal dates,
    # hour-only times), and an integer beyond the range of float next to a float: listed known findings of C01
    for s_ in LENIENT_DATETIME:
        cases.append(dict(roots=[("Root", [{"f": s_, "g": 1}, {"f": s_, "g": 2}])], envspec={"datetime": True}, policy=DR.POLICIES[1],
                          fw=rng.choice(["pydantic", "sqlmodel"]), layout="flat", kw={}))
    cases.append(dict(roots=[("Root", [{"f": 10 ** 400, "g": 1}, {"f": 1.5, "g": 2}])], envspec={}, policy=DR.POLICIES[1], fw="pydantic",
                      layout="flat", kw={}))
    # a field that is null in one sample and a list holding only nulls in another: Optional[List[None]], which pydantic v1 does not
    # accept None for (it validates None against the list shape when the element type is NoneType): listed known finding of C01
    cases.append(dict(roots=[("Root", [{"t": None, "g": 1}, {"t": [None], "g": 2}])], envspec={}, policy=DR.POLICIES[1], fw="pydantic",
                      layout="flat", kw={}))
    for i in range(n):
        a, b = pairs[i % len(pairs)]
        va = rng.choice(PSEUDO_LEAVES.get(a) or ["foo", "bar"])
        vb = rng.choice(PSEUDO_LEAVES.get(b) or ["foo", "bar"])
        shape = rng.choice(["across", "list", "optional"])
        if shape == "across":
            samples = [{"f": va, "g": 1}, {"f": vb, "g": 2}]
        elif shape == "list":
            samples = [{"f": [va, vb], "g": 1}, {"f": [vb], "g": 2}]
        else:
            samples = [{"f": va, "g": 1}, {"g": 2}, {"f": vb, "g": 3}]
        if rng.random() < 0.5:
            samples.reverse()
        fw = rng.choice(["pydantic", "pydantic", "sqlmodel", "attrs", "dataclasses", "base"])
        cases.append(dict(roots=[("Root", samples)], envspec={"datetime": True}, policy=DR.POLICIES[1], fw=fw,
                          layout="flat", kw={}))
    return cases


# ---------------------------------------------------------------------- MC_Keys behaviours
CFG_KEYS = """SPECIFICATION Spec
CONSTANTS
  MaxSeg = %d
  Emit = TRUE
INVARIANT InDomain
INVARIANT EmitB
CHECK_DEADLOCK FALSE
"""
KIND_WORDS = {"lower": ["name", "value", "item"], "cap": ["Name", "Value"], "upper": ["NAME", "ID"],
              "keyword": ["class", "None", "True", "import", "async", "def"], "builtin": ["list", "dict", "id", "type", "print", "max"],
              "typing": ["Optional", "List", "Any", "Union", "Literal", "Dict"],
              "fwimport": ["Field", "BaseModel", "field", "dataclass", "attr", "optional", "SQLModel", "convert_strings", "ClassType",
                           "IntString", "FloatString", "BooleanString", "IsoDateString", "IsoTimeString", "IsoDatetimeString", "iso_date_string"],
              "pydattr": ["json", "copy", "schema_json", "fields", "config", "parse_obj", "validate", "construct", "register", "mro"],
              "nonascii": ["état", "имя", "größe"], "digit": ["1", "42", "0"]}


def key_shape_cases(chk, maxseg, limit):
    r = chk.model_check("MC_Keys", CFG_KEYS % maxseg, "key-shape grammar: every key of <=%d segments over 10 segment kinds x 4 separators" % maxseg, workers=1)
    shapes = [json.loads(t[1]) for t in tlc.printed_tuples(r["out"], "B")]
    rng = chk.rng
    rng.shuffle(shapes)
    cases = []
    for shape in shapes[:limit]:
        key = ""
        for seg in shape:
            w = rng.choice(KIND_WORDS[seg["kind"]])
            if seg["sep"] == "camel":
                w = w[:1].upper() + w[1:]
            elif seg["sep"] == "under":
                w = "_" + w
            elif seg["sep"] == "hyphen":
                w = "-" + w
            key += w
        other = "zz_other"
        samples = [{key: {"inner_x": 1, key: rng.choice([1, "s", None])}, other: 1}, {key: {"inner_x": 2}, other: None}]
        if rng.random() < 0.5:
            samples = [{key: rng.choice([1, "s", [1], None]), other: {"q": 1}}, {key: rng.choice([2, "t"]), other: {"q": 2}}]
        fw = rng.choice(FRAMEWORKS)
        kw = {}
        if fw in ("attrs", "dataclasses") and rng.random() < 0.5:
            kw["meta"] = True
        envspec = {}
        if "String" in key or "string" in key or rng.random() < 0.2:
            # make the module import the string pseudo-types (also the ones --datetime registers later than import time)
            folded = key.replace("_", "").replace("-", "").lower()
            mine = [v[0] for n_, v in PSEUDO_LEAVES.items() if n_.lower() in folded]      # the type the key is named after
            for s_ in samples:
                s_["zz_when"] = rng.choice(["2020-01-02", "10:20:30", "2020-01-02T10:20:30"])
                s_["zz_num"] = rng.choice(["1", "1.5", "true"])
                if mine:
                    s_["zz_mine"] = mine[0]
            envspec = {"datetime": True}
            fw = rng.choice(["attrs", "dataclasses", fw])
        cases.append(dict(roots=[("Root", samples)], envspec=envspec, policy=DR.POLICIES[1], fw=fw, layout=rng.choice(["flat", "nested"]), kw=kw,
                          shape=shape, key=key))
    return cases, len(shapes)

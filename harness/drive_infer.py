"""Drivers for the metadata stage (spec/Infer.tla, MC_Infer.tla, MC_Opt.tla, Trace_Infer.tla).

loop A  TLC checks MC_Infer / MC_Opt (all invariants) on the bounded universes
loop B  every initial state TLC enumerated ("B" lines) is concretised and run through the real
        MetadataGenerator; seeded random nested JSON on top
loop C  the recorded events are validated by TLC against Trace_Infer with Claim = property id
"""
import itertools
import json

from . import tlc
from .project import (Interner, val_node, type_node, make_env, default_registry, N)
from json_to_models.generator import MetadataGenerator
from json_to_models.dynamic_typing import (DDict, DList, DOptional, DUnion, Null, StringLiteral, Unknown,
                                           IntString, FloatString, BooleanString, IsoDateString,
                                           IsoTimeString, IsoDatetimeString)

# ---- grounding of the MC string universe (checked against the real parsers on every run)
MC_STRINGS = {"sA": "a", "sB": "b", "sC": "a,b", "sLong": "abcdefghijklmnopqrst", "sInt": "1", "sFlt": "1.5",
              "sBool": "true", "sDate": "2020-01-02", "a": "a", "b": "b", "c": "c", "d": "d"}
MC_ENVS = {
    "default": {},
    "dates": {"datetime": True},
    "nofloat": {"disabled": ["FloatString"]},
    "dkf": {"dkf": ["a"]},
    "dkr": {"dkr": ["c"]},
    "dkfdkr": {"dkf": ["a"], "dkr": ["c"]},
    "dkr2": {"dkr": ["c", "[cd]"]},
}
PSEUDO = {c.__name__: c for c in (IntString, FloatString, BooleanString, IsoDateString, IsoTimeString, IsoDatetimeString)}


def concretise(node, strings=MC_STRINGS, num=None):
    """abstract JSON value node -> Python value"""
    k = node["k"]
    if k == "null":
        return None
    if k == "int":
        return 3
    if k == "float":
        return 2.5
    if k == "bool":
        return True
    if k == "str":
        return strings[node["n"]]
    if k == "list":
        return [concretise(x, strings) for x in node["xs"]]
    if k == "obj":
        return {strings[kk]: concretise(x, strings) for kk, x in zip(node["ks"], node["xs"])}
    raise ValueError(k)


def build_type(node, strings=MC_STRINGS):
    """abstract IR type node -> real IR objects (for MC_Opt behaviours)"""
    k = node["k"]
    if k == "unknown":
        return Unknown
    if k == "null":
        return Null
    if k in ("int", "float", "bool", "str"):
        return {"int": int, "float": float, "bool": bool, "str": str}[k]
    if k == "pseudo":
        return PSEUDO[node["n"]]
    if k == "lit":
        return StringLiteral({strings[s] for s in node["ls"]})
    if k == "litover":
        return StringLiteral({"x" * 25})
    if k == "opt":
        return DOptional(build_type(node["xs"][0], strings))
    if k == "list":
        return DList(build_type(node["xs"][0], strings))
    if k == "dict":
        return DDict(build_type(node["xs"][0], strings))
    if k == "union":
        u = DUnion()
        u.types = [build_type(x, strings) for x in node["xs"]]   # members exactly as enumerated
        return u
    if k == "obj":
        return {strings[kk]: build_type(x, strings) for kk, x in zip(node["ks"], node["xs"])}
    raise ValueError(k)


def ground_check(acc_table, chk=None):
    """The acceptance table the model assumes for its strings must be what the real parsers say."""
    for sid, names in acc_table.items():
        s = MC_STRINGS[sid]
        real = sorted(n for n, c in PSEUDO.items() if _accepts(c, s))
        if sorted(names) != real:
            print("NOTE grounding: MC_Infer assumes %s for %r, the parsers say %s (model universe out of date; traces decide)" % (sorted(names), s, real))
            if chk is not None:
                chk.extra.setdefault("grounding_mismatch", []).append({"string": s, "model": sorted(names), "parsers": real})
        if (len(s) >= 20) != (sid == "sLong"):
            raise tlc.MachineryError("MC string universe: length class of %s" % sid)


def _accepts(c, s):
    try:
        c.to_internal_value(s)
        return True
    except ValueError:
        return False


def make_generator(envspec):
    reg = default_registry(datetime=envspec.get("datetime", False), disabled=envspec.get("disabled", ()))
    gen = MetadataGenerator(str_types_registry=reg, dict_keys_regex=list(envspec.get("dkr", ())) or None,
                            dict_keys_fields=list(envspec.get("dkf", ())) or None)
    return gen, reg


def exc_name(e):
    return "%s: %s" % (type(e).__name__, str(e)[:120])


def generate_event(samples, envspec, I=None):
    """Run the real MetadataGenerator.generate; return the Generate event (projected)."""
    I = I or Interner()
    gen, reg = make_generator(envspec)
    vals = [val_node(s, I) for s in samples]
    try:
        meta = gen.generate(*json.loads(json.dumps(samples)))
        res, exc = type_node(meta, I), ""
    except Exception as e:  # the code under test raised
        res, exc = None, exc_name(e)
    env = make_env(I, reg, dkf=envspec.get("dkf", ()), dkr=envspec.get("dkr", ()), anchored=envspec.get("anchored", False))
    return {"ev": "Generate", "samples": vals, "env": env, "result": res, "exc": exc}


def optimize_events(tnode, envspec, strings=MC_STRINGS):
    """optimize_type twice on real IR objects built from an abstract type; two Optimize events."""
    gen, reg = make_generator(envspec)
    I = Interner()
    inv = {}
    for sid, s in strings.items():
        inv[sid] = I(s)
    arg = build_type(tnode, strings)
    arg_node = type_node(arg, I)
    evs = []
    cur = arg
    for second in (False, True):
        a_node = type_node(cur, I)
        try:
            out = gen.optimize_type(cur)
            r, exc = type_node(out, I), ""
        except Exception as e:
            out, r, exc = None, None, exc_name(e)
        evs.append({"ev": "Optimize", "arg": a_node, "result": r, "exc": exc, "second": second})
        if exc:
            break
        cur = out
    env = make_env(I, reg)
    for e in evs:
        e["env"] = env
    return evs


def optimize_traces(limit=None):
    """optimize_type called directly (twice) on unions of 2-3 members drawn from a small universe that includes Optional and nested-union
    members with repeated atoms -- what merge_field_sets hands over when models are merged: each pass must give a normal form and the
    second must change nothing (C08 at the level of the public method)"""
    from .project import N
    A = lambda k: N(k)
    lit = lambda *ids: N("lit", ls=list(ids))
    opt = lambda x: N("opt", xs=[x])
    uni = lambda *xs: N("union", xs=list(xs))
    lst = lambda x: N("list", xs=[x])
    eight_a = ["a", "b", "c", "d", "sA", "sB", "sC", "sLong"][:7] + ["sInt"]
    atoms = [A("int"), A("float"), A("bool"), A("str"), N("pseudo", "IntString"), N("pseudo", "FloatString"), lit("a", "b"), lit("c", "d"),
             opt(A("int")), opt(A("float")), opt(lit("a", "c")), opt(uni(A("int"), lit("b", "d"))), opt(uni(A("float"), N("pseudo", "IntString"))),
             lst(A("int")), opt(lst(A("float"))), opt(uni(lst(A("int")), A("bool"))), A("null"), opt(N("litover"))]
    unions = [uni(a, b) for a in atoms for b in atoms] + [uni(a, b, c) for a in atoms[:12] for b in atoms[6:] for c in atoms[8:14]]
    traces, inputs = [], {}
    for i, u in enumerate(unions[:limit]):
        try:
            evs = optimize_events(u, {})
        except Exception as e:
            continue
        traces.append({"id": "opt%d" % i, "events": evs})
        inputs["opt%d" % i] = {"type": u}
    return traces, inputs


# ---------------------------------------------------------------------- loop A + B
CFG_INFER = """SPECIFICATION Spec
CONSTANTS
  MaxSamples = %d
  Emit = %s
  UniverseId = "%s"
INVARIANT Sound
INVARIANT TightInv
INVARIANT Total
INVARIANT Normal
INVARIANT Idempotent
INVARIANT OrderFree
INVARIANT DictIffInv
INVARIANT RootIsModel
CHECK_DEADLOCK FALSE
"""


def mc_infer(chk, max_samples, universe, emit=True, timeout=3000):
    r = chk.model_check("MC_Infer", CFG_INFER % (max_samples, "TRUE" if emit else "FALSE", universe),
                        "inference state machine, <=%d samples, universe %s: Sound TightInv Total Normal Idempotent "
                        "OrderFree DictIffInv RootIsModel" % (max_samples, universe), timeout=timeout)
    behaviours = []
    if emit:
        acc = tlc.printed_tuples(r["out"], "ACC")
        if acc:
            ground_check({k: v for k, v in json.loads(acc[0][1]).items()}, chk)
        for t in tlc.printed_tuples(r["out"], "B"):
            behaviours.append(json.loads(t[1]))
    return behaviours


# ---------------------------------------------------------------------- random nested JSON
KEYS = ["id", "name", "value", "items", "data", "c", "d", "tags", "meta", "x1", "flag", "when"]
STRS = ["foo", "bar", "baz", "1", "-2", "1.5", "1e3", "true", "False", "2020-01-02", "12:30", "2020-01-02T10:00:00",
        "abcdefghijklmnopqrstuvwxyz", "", " ", "nan", "0x1", "1_0", "qux", "é", "a", "b", "a,b", "...", ","]


def random_json(rng, depth=0, maxdepth=3):
    r = rng.random()
    if depth >= maxdepth or r < 0.45:
        c = rng.randrange(7)
        return [None, rng.randrange(-3, 100), rng.random() * 10, rng.random() < 0.5,
                rng.choice(STRS), rng.choice(STRS[:6]), None if rng.random() < 0.3 else rng.choice(STRS)][c]
    if r < 0.7:
        return [random_json(rng, depth + 1, maxdepth) for _ in range(rng.choice([0, 1, 1, 2, 3]))]
    return random_obj(rng, depth + 1, maxdepth)


def random_obj(rng, depth=0, maxdepth=3):
    n = rng.choice([0, 1, 2, 2, 3, 4])
    return {k: random_json(rng, depth, maxdepth) for k in rng.sample(KEYS, n)}


def random_samples(rng):
    """samples that share a shape (so merging has something to do) with per-sample perturbations"""
    base = random_obj(rng, 0, 3)
    out = []
    for _ in range(rng.choice([1, 2, 3, 4])):
        s = json.loads(json.dumps(base))
        for _ in range(rng.choice([0, 1, 2])):
            k = rng.choice(KEYS)
            if rng.random() < 0.3 and k in s:
                del s[k]
            else:
                s[k] = random_json(rng, 1, 3)
        out.append(s)
    return out


def bracketing_samples(rng):
    """the same scalars bracketed in two ways -- [[a, b], c, d] next to [[a, b, c], d]: list types whose flattened member
    lists coincide although the types differ (what tells union members apart must see the nesting)"""
    pool = [1, 1.5, True, None, "x", "1", "2.5", [], {"k": 1}]
    if rng.random() < 0.7:
        # the bracket opens at the front and the scalars are of different kinds: [[a, b], c, d] / [[a, b, c], d]
        seq = rng.sample(pool, rng.choice([3, 4, 5]))
        (a, b) = rng.sample([(0, j) for j in range(2, len(seq) + 1)], 2)
    else:
        seq = [rng.choice(pool) for _ in range(rng.choice([3, 4, 5]))]
        cuts = [(i, j) for i in range(len(seq)) for j in range(i + 1, len(seq) + 1)]
        (a, b) = rng.sample(cuts, 2)

    def br(c):
        i, j = c
        inner = seq[i:j] if rng.random() < 0.8 else {"d%d" % n: v for n, v in enumerate(seq[i:j])}
        return [*seq[:i], inner, *seq[j:]]
    x1, x2 = br(a), br(b)
    shape = rng.choice(["across", "across", "one-list", "dict"])
    if shape == "across":
        return [{"x": x1, "n": 1}, {"x": x2, "n": 2}]
    if shape == "one-list":
        return [{"x": [x1, x2], "n": 1}]
    return [{"x": {"p": x1, "q": x2}, "n": 1}, {"x": {"p": x2}, "n": 2}]


RANDOM_ENVS = [{}, {"datetime": True}, {"disabled": ["FloatString"]}, {"dkf": ["data"]}, {"dkr": ["c|d", r"x\d"]},
               {"dkf": ["meta", "data"], "dkr": ["[a-z]+"]}, {"datetime": True, "dkr": ["i.*"]}]


# ---------------------------------------------------------------------- traces per property
def traces_for(pid, behaviours, chk, n_random):
    traces, inputs = [], {}

    def add(tid, events, inp):
        traces.append({"id": tid, "events": events})
        inputs[tid] = inp

    cases = [([concretise(s) for s in b["samples"]], MC_ENVS[b["env"]], "mc") for b in behaviours]
    for k in range(n_random):
        if k % 4 == 3:
            cases.append((bracketing_samples(chk.rng), chk.rng.choice([{}, {}, {"dkr": ["[pq]"]}, {"dkf": ["x"]}]), "brk"))
        else:
            cases.append((random_samples(chk.rng), chk.rng.choice(RANDOM_ENVS), "rnd"))
    for i, (samples, envspec, origin) in enumerate(cases):
        tid = "%s%d" % (origin, i)
        if pid == "C07":
            I = Interner()
            evs = []
            perms = list(itertools.permutations(range(len(samples))))
            if len(perms) > 6:
                perms = [perms[0]] + chk.rng.sample(perms[1:], 5)
            for p in perms:
                evs.append(generate_event([samples[j] for j in p], envspec, I))
            j = chk.rng.randrange(len(samples))
            evs.append(generate_event(samples + [samples[j]], envspec, I))
            evs.append(generate_event([samples[j]] + samples + samples[::-1], envspec, I))
            env = evs[-1]["env"]
            for e in evs:   # one environment (the interner grew while recording)
                e["env"] = env
            add(tid, evs, {"samples": samples, "env": envspec})
        else:
            add(tid, [generate_event(samples, envspec)], {"samples": samples, "env": envspec})
    return traces, inputs

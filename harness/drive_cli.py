"""Driver for the command line family (spec/Cli.tla, MC_Cli.tla, Trace_Cli.tla, Header.tla): C16, C17, C19."""
import hashlib
import io
import json
import os
import shutil
import subprocess
import sys
import tempfile

from . import tlc
from . import record
from .project import REPO
from json_to_models import cli as C
from json_to_models.dynamic_typing import registry as GLOBAL_REGISTRY
from json_to_models.generator import MetadataGenerator
from json_to_models.registry import ModelRegistry
from json_to_models.models.base import generate_code
from json_to_models.models.structure import compose_models, compose_models_flat
from . import loadmod as LM
from . import drive_registry as DR

CFG_CLI = """SPECIFICATION Spec
CONSTANTS
  MaxArgs = %d
  Emit = %s
  Clean = %s
INVARIANT Atomic
INVARIANT Reports
INVARIANT Complete
INVARIANT Assembled
PROPERTY OnlyWriteAfterRender
PROPERTY Terminates
CHECK_DEADLOCK FALSE
"""


def mc_cli(chk, maxargs, emit=True, clean=False):
    r = chk.model_check("MC_Cli", CFG_CLI % (maxargs, "TRUE" if emit else "FALSE", "TRUE" if clean else "FALSE"),
                        "CLI process, every %splan with <=%d arguments x output situation%s: Atomic Reports Complete "
                        "Assembled, OnlyWriteAfterRender, Terminates" % ("fault-free " if clean else "", maxargs, "" if clean else " x single fault"))
    return [json.loads(t[1]) for t in tlc.printed_tuples(r["out"], "B")] if emit else []


def sha(s):
    return hashlib.sha256(s.encode("utf-8", "surrogatepass")).hexdigest()[:16]


# ---------------------------------------------------------------------- option sets (the table Opts(argv))
OPTION_SETS = [
    {"argv": [], "fw": "base", "layout": "flat", "policy": [("percent", 70), ("number", 10)], "kw": {}},
    {"argv": ["-f", "pydantic", "-s", "nested"], "fw": "pydantic", "layout": "nested", "policy": [("percent", 70), ("number", 10)], "kw": {}},
    {"argv": ["-f", "attrs", "--merge", "exact", "--strings-converters"], "fw": "attrs", "layout": "flat", "policy": [("exact", 0)],
     "kw": {"post_init_converters": True}},
    {"argv": ["-f", "dataclasses", "--merge", "percent_50", "number_3", "--max-strings-literals", "2", "--code-generator-kwargs", "meta=true"],
     "fw": "dataclasses", "layout": "flat", "policy": [("percent", 50), ("number", 3)], "kw": {"max_literals": 2, "meta": True}},
    {"argv": ["-f", "pydantic", "--datetime", "--dkf", "extra", "--dkr", "k\\d"], "fw": "pydantic", "layout": "flat",
     "policy": [("percent", 70), ("number", 10)], "kw": {}, "env": {"datetime": True, "dkf": ["extra"], "dkr": ["^k\\d$"]}},
    {"argv": ["-f", "sqlmodel", "--disable-unicode-conversion", "--disable-str-serializable-types", "float", "--preamble", "X = 1"],
     "fw": "sqlmodel", "layout": "flat", "policy": [("percent", 70), ("number", 10)], "kw": {"convert_unicode": False},
     "env": {"disabled": ["float"]}, "preamble": "X = 1"},
]


def sample(sid, rng):
    s = {"sid": sid, "name": rng.choice(["a", "b", "1", "2020-01-02", "2020-01-02T10:20:30"]), "n": rng.choice([1, 2.5, None, "7"])}
    if rng.random() < 0.5:
        s["child"] = {"x": rng.choice([1, "s"]), "tags": rng.choice([[], ["t"], [1]])}
    if rng.random() < 0.3:
        s["extra"] = {"k1": 1, "k2": "v"}
    if rng.random() < 0.3:
        s["k%d" % (sid % 3)] = True
    return s


def materialise(plan, opt, rng, work, fmt="json"):
    """plan (from MC_Cli) -> files in `work`, argv, expected samples per model (statement's Assemble), out path"""
    argv = []
    path_index = {}
    per_model = {}
    order = list(plan["args"])        # the samples of a model: its arguments in command-line order, -m and -l alike
    contents = {}
    first = None
    yaml11 = fmt == "yaml" and len(plan["args"]) >= 2 and not any(a.get("share") for a in plan["args"]) and rng.random() < 0.6
    for i, a in enumerate(plan["args"], 1):
        fn = "f%d.%s" % (i, fmt)
        path = os.path.join(work, fn)
        path_index[fn] = i
        kind = a["kind"]
        objs = [sample(sid, rng) for sid in a["ids"]]
        lookup = "-"
        data = None
        if kind == "noglob":
            # a pattern in an existing directory that matches no file
            d = os.path.join(work, "g%d" % i)
            os.makedirs(d)
            contents[i] = (kind, [])
            pat = os.path.join(d, rng.choice(["*.none", "no_such_*.%s" % fmt, "?"]))
            argv += ["-m", a["model"], pat] if a["flag"] == "m" else ["-l", a["model"], "-", pat]
            continue
        if kind == "glob" and not a.get("alias"):
            # a directory with two files, one object each, named by a pattern
            d = os.path.join(work, "g%d" % i)
            os.makedirs(d)
            names = ["b%d_second.%s" % (i, fmt), "a%d_first.%s" % (i, fmt)] if rng.random() < 0.5 else ["x%d_1.%s" % (i, fmt), "x%d_0.%s" % (i, fmt)]
            for nm, o in zip(names, objs):
                with open(os.path.join(d, nm), "w") as f:
                    json.dump(o, f)
                path_index[nm] = i
            contents[i] = (kind, objs)
            pat = os.path.join(d, rng.choice(["*.%s" % fmt, "?*.%s" % fmt, "*"]))
            if first is None:
                first = (kind, objs, "-", pat)
            if a["flag"] == "m":
                argv += ["-m", a["model"], pat]
            else:
                argv += ["-l", a["model"], "-", pat]
            continue
        if kind == "list":
            data = objs
        elif kind == "object":
            data = objs[0]
        elif kind == "lookup":
            data = {"meta": 1, "res": {"items": objs[0]}}
            lookup = "res.items"
        elif kind == "malformed":
            data = "MALFORMED"
        elif kind == "badlookup":
            data = {"res": {"items": [{"sid": 0}]}}
            lookup = rng.choice(["res.nothere", "nothere", "res.items.x"])
        elif kind == "scalar":
            data = {"res": 5}
            lookup = "res"
        elif kind == "nonobject":
            data = [7] if rng.random() < 0.5 else [objs[0], "str"]
            if len(data) == 2:
                pass
        elif kind == "nonstrkey":
            data = objs[0]
        if a.get("alias"):
            # exactly the same file and lookup as argument 1, given once more (possibly under another model name)
            kind1, objs1, lookup1, path1 = first
            contents[i] = (kind1, objs1)
            if a["flag"] == "m":
                argv += ["-m", a["model"]] + ([lookup1] if lookup1 != "-" else []) + [path1]
            else:
                argv += ["-l", a["model"], lookup1, path1]
            continue
        if fmt == "ini" and kind in ("object", "lookup", "malformed", "badlookup", "missing", "scalar"):
            # configparser gives {section: {key: str}}: the whole file is one object, or a section is selected by lookup
            def ini_obj(sid):
                return {"main": {"sid": str(sid), "name": rng.choice(["a", "b", "1"])}, "extra": {"x": "1", "flag": rng.choice(["true", "no"])}}
            if kind == "object":
                objs = [ini_obj(a["ids"][0])]
                text, lookup = _ini_text(objs[0]), "-"
            elif kind == "lookup":
                sec = {"sid": str(a["ids"][0]), "name": "n", "when": "2020-01-02"}
                objs = [sec]
                text, lookup = _ini_text({"res": sec, "other": {"y": "2"}}), "res"
            elif kind == "malformed":
                text = "[unclosed\nkey value without equals\n"
            elif kind == "badlookup":
                text, lookup = _ini_text({"res": {"sid": "0"}}), "nothere"
            elif kind == "scalar":
                text, lookup = _ini_text({"res": {"v": "5"}}), "res.v"
            contents[i] = (kind, objs)
            if i == 1:
                first = (kind, objs, lookup, path)
            if kind != "missing":
                with open(path, "w") as f:
                    f.write(text)
            if a["flag"] == "m":
                argv += ["-m", a["model"]] + ([lookup] if lookup != "-" else []) + [path]
            else:
                argv += ["-l", a["model"], lookup, path]
            continue
        contents[i] = (kind, objs)
        if a.get("share"):
            # same physical file as argument 1, another sub-document
            p1 = os.path.join(work, "f1.%s" % fmt)
            doc = json.load(open(p1))
            doc["res%d" % i] = {"items": objs[0]}
            json.dump(doc, open(p1, "w"))
            lookup = "res%d.items" % i
            path = p1
        elif kind != "missing":
            with open(path, "w") as f:
                if kind == "malformed":
                    f.write('{"a": [1, 2' if fmt == "json" else "a: [1, 2\n b: {")
                elif kind == "nonstrkey":
                    # non-string keys at the top level, or (every second time) only inside a nested mapping called `extra` -- which is
                    # a model without options and a Dict[str, T] field under --dkf extra: the keys are not strings either way
                    f.write(("{1: x, sid: %d}\n" if rng.random() < 0.5 else "{sid: %d, extra: {1: x, 2: y}}\n") % a["ids"][0])
                elif fmt == "json":
                    json.dump(data, f)
                elif yaml11 and i == 1 and kind in ("list", "object", "lookup"):
                    f.write("%YAML 1.1\n---\n" + json.dumps(data) + "\n")      # a directive concerns its own document only
                elif yaml11 and i > 1 and kind == "object":
                    # plain scalars that YAML 1.2 (the loader's default) reads as strings and YAML 1.1 as booleans
                    data["name"] = rng.choice(["yes", "no", "on", "off"])
                    f.write("".join("%s: %s\n" % (json.dumps(k), v if k == "name" else json.dumps(v)) for k, v in data.items()))
                else:
                    f.write(json.dumps(data))      # JSON is YAML
        if i == 1:
            first = (kind, objs, lookup, path)
        if a["flag"] == "m":
            argv += ["-m", a["model"]] + ([lookup] if lookup != "-" or (rng.random() < 0.3 and i != 1) else []) + [path]
        else:
            argv += ["-l", a["model"], lookup, path]
    for a in order:
        i = plan["args"].index(a) + 1
        kind, objs = contents[i]
        if kind in ("list", "object", "lookup", "glob"):
            per_model.setdefault(a["model"], []).extend(objs)
        else:
            per_model.setdefault(a["model"], [])
    out_path = None
    if plan["out"] != "none":
        out_path = os.path.join(work, "out.py") if plan["out"] != "unwritable" else os.path.join(work, "nodir", "out.py")
        if plan["out"] == "old":
            with open(out_path, "w") as f:
                f.write("OLD CONTENT\n")
        argv += ["-o", out_path]
    opt_argv = list(opt["argv"])
    f = plan["fault"]
    if f == "argparse":
        opt_argv += ["--structure", "weird"]
    elif f == "merge":
        opt_argv = _set_merge(opt_argv, ["bogus"])
    elif f == "fwgen":
        opt_argv = _set_fw(opt_argv, rng.choice([["-f", "custom"], ["--code-generator", "x.Y"]]))
    elif f == "mergearg":
        opt_argv = _set_merge(opt_argv, ["percent_abc"])
    elif f == "import":
        opt_argv = _set_fw(opt_argv, ["-f", "custom", "--code-generator", "no_such_module_j2m.Gen"])
    elif f == "generator":
        opt_argv = _set_fw(opt_argv, ["-f", "custom", "--code-generator", "j2m_raising_gen.RaisingGenerator"])
    elif f == "encode":
        # text UTF-8 cannot encode: a preamble (inserted verbatim) holding the lone surrogate Python makes of an undecodable argv byte
        opt_argv += ["--preamble", "# caf\udce9"]
    if fmt != "json":
        opt_argv += ["-i", fmt]
    return argv + opt_argv, path_index, per_model, out_path


def _sid(s):
    v = s.get("sid") if "sid" in s else (s.get("main") or {}).get("sid")
    return int(v) if isinstance(v, str) and v.isdigit() else v


def _ini_text(d):
    return "".join("[%s]\n%s\n" % (sec, "".join("%s = %s\n" % kv for kv in items.items())) for sec, items in d.items())


def _set_merge(argv, val):
    if "--merge" in argv:
        i = argv.index("--merge")
        j = i + 1
        while j < len(argv) and not argv[j].startswith("-"):
            j += 1
        return argv[:i] + ["--merge"] + val + argv[j:]
    return argv + ["--merge"] + val


def _set_fw(argv, val):
    out = []
    skip = 0
    for i, a in enumerate(argv):
        if skip:
            skip -= 1
            continue
        if a in ("-f", "--framework"):
            skip = 1
            continue
        out.append(a)
    return out + val


RAISING_GEN = '''
from json_to_models.models.base import GenericModelCodeGenerator


class RaisingGenerator(GenericModelCodeGenerator):
    """fails inside code generation, at the K-th class (K from the environment)"""
    count = 0

    def generate(self, *a, **k):
        import os
        type(self).count += 1
        if type(self).count >= int(os.environ.get("J2M_RAISE_AT", "1")):
            raise RuntimeError("generator failure injected by the harness")
        return super().generate(*a, **k)
'''


def lib_text(per_model, opt):
    """What the library pipeline returns for the same samples and options (the right-hand side of C16)."""
    env = opt.get("env", {})
    from .drive_infer import make_generator
    gen, _ = make_generator(dict(env, disabled=env.get("disabled", ())))
    reg = ModelRegistry(*DR.make_policy(opt["policy"]))
    for name, samples in per_model.items():
        reg.process_meta_data(gen.generate(*json.loads(json.dumps(samples))), model_name=name)
    reg.merge_models(gen)
    reg.generate_names()
    structure = (compose_models_flat if opt["layout"] == "flat" else compose_models)(reg.models_map)
    kw = dict(post_init_converters=False, convert_unicode=True, max_literals=10)
    kw.update(opt["kw"])
    return generate_code(structure, LM.GENERATORS[opt["fw"]], class_generator_kwargs=kw, preamble=opt.get("preamble"))


def strip_header(text):
    """CLI output minus its 4-line header (r\"\"\", generated by, command:, \"\"\")"""
    parts = text.split("\n", 4)
    if len(parts) < 5 or parts[0] != 'r"""' or parts[3] != '"""':
        return None
    return parts[4]


def file_state(path, plan_out):
    if path is None:
        return "none", ""
    if not os.path.exists(path):
        return "absent", ""
    data = open(path, encoding="utf-8", errors="replace").read()
    if data == "OLD CONTENT\n":
        return "old", data
    return ("new" if data.startswith('r"""') and data.endswith("\n") and len(data) > 20 else "other"), data


def run_subprocess(plan, opt, rng, fmt):
    """The same plan as a real OS process: python -m json_to_models ...  -> (status, stdout kind, code hash, out file state)"""
    import random
    work = tempfile.mkdtemp(prefix="j2m-clisub-")
    try:
        argv, _, per_model, out_path = materialise(plan, opt, random.Random(rng.random()), work, fmt)
        with open(os.path.join(work, "j2m_raising_gen.py"), "w") as f:
            f.write(RAISING_GEN)
        # a UTF-8 standard output, as the model (and the in-process recorder) assume: under the C / POSIX locale Python would
        # let undecodable argv bytes through to stdout again (surrogateescape) instead of failing to encode them
        env = dict(os.environ, PYTHONPATH=os.pathsep.join([REPO, work]), PYTHONDONTWRITEBYTECODE="1", PYTHONIOENCODING="utf-8:strict")
        env.pop("J2M_VERIF", None)
        p = subprocess.run([sys.executable, "-m", "json_to_models"] + argv, cwd=work, env=env, stdout=subprocess.PIPE,
                           stderr=subprocess.PIPE, text=True, encoding="utf-8", errors="replace", timeout=120)
        after, data = file_state(out_path, plan["out"])
        out = p.stdout
        kind = "code" if out.startswith('r"""') else ("message" if out.strip() else "none")
        libs = []
        if p.returncode == 0:
            # the order inside a pattern is unspecified and not observable from outside: every order of every pattern chunk
            import itertools
            order = list(plan["args"])
            by_id = {_sid(s_): s_ for ss in per_model.values() for s_ in ss if isinstance(s_, dict)}
            globs = [a for a in order if a["kind"] == "glob"]
            for flips in itertools.product([False, True], repeat=len(globs)):
                pm = {}
                for a in order:
                    ids = list(a["ids"])
                    if a["kind"] == "glob" and flips[globs.index(a)]:
                        ids.reverse()
                    if a["kind"] in ("list", "object", "lookup", "glob"):
                        pm.setdefault(a["model"], []).extend(by_id[i] for i in ids if i in by_id)
                libs.append(sha(lib_text(pm, opt)))
        code = strip_header(out[:-1]) if kind == "code" else None       # print() appended one newline
        fcode = strip_header(data) if after == "new" else None
        return {"ev": "SubExit", "status": p.returncode, "stdout": kind, "outAfter": after if plan["out"] != "none" else "none",
                "codeHash": sha(code) if code is not None else "", "libHashes": libs, "fileHash": sha(fcode) if fcode is not None else "",
                "ok": True, "kind": "", "model": ""}
    finally:
        shutil.rmtree(work, ignore_errors=True)


def run_plan(plan, opt, rng, fmt="json", sub=False):
    """One real CLI run (in-process main() with recording).  Returns the event list and replay data."""
    work = tempfile.mkdtemp(prefix="j2m-cli-")
    saved_types, saved_repl = list(GLOBAL_REGISTRY.types), set(GLOBAL_REGISTRY.replaces)
    old_argv, old_path, old_cwd = sys.argv, list(sys.path), os.getcwd()
    if any(a["kind"] == "nonstrkey" for a in plan["args"]):
        fmt = "yaml"        # only a YAML document can carry non-string keys
    if fmt == "ini" and not all(a["kind"] in ("object", "lookup", "malformed", "badlookup", "missing", "scalar", "noglob") and not a.get("share") for a in plan["args"]):
        fmt = "json"        # an ini file holds exactly one object of string values
    try:
        argv, path_index, per_model, out_path = materialise(plan, opt, rng, work, fmt)
        with open(os.path.join(work, "j2m_raising_gen.py"), "w") as f:
            f.write(RAISING_GEN)
        sys.path.insert(0, work)
        sys.modules.pop("j2m_raising_gen", None)
        rec = record.Recorder()
        rec.emit("Start", plan=plan, argv=[a.replace(work, "$W") for a in argv])
        sys.argv = ["json_to_models"] + argv
        stderr = io.StringIO()
        status = 0
        old_err = sys.stderr
        sys.stderr = stderr
        try:
            with record.cli_recording(rec, out_path, path_index) as st:
                try:
                    C.main()
                except SystemExit as e:
                    status = e.code if isinstance(e.code, int) else 1
                except BaseException:
                    status = 1
        finally:
            sys.stderr = old_err
        printed = "\n".join(st.get("printed", []))
        after, data = file_state(out_path, plan["out"])
        lib = ""
        if status == 0:
            try:
                # the same samples in the order the CLI assembled them (the order inside a pattern is unspecified)
                by_id = {_sid(s_): s_ for ss in per_model.values() for s_ in ss if isinstance(s_, dict)}
                observed = {}
                for e in rec.events:
                    if e["ev"] == "Generate" and e.get("ok") and e.get("model"):
                        observed[e["model"]] = [by_id[i] for i in e["ids"] if i in by_id]
                lib_models = {m: (observed.get(m) if observed.get(m) is not None and len(observed[m]) == len(ss) else ss)
                              for m, ss in per_model.items()}
                lib = lib_text(lib_models, opt)
            except Exception as e:
                lib = "LIB-FAILED %r" % e
        code = strip_header(printed) if printed.startswith('r"""') else None
        fcode = strip_header(data) if after == "new" else None
        rec.emit("Exit", status=status, outAfter=after if plan["out"] != "none" else "none",
                 codeHash=sha(code) if code is not None else "", libHash=sha(lib),
                 fileHash=sha(fcode) if fcode is not None else "")
        if sub:
            rec.events.append(run_subprocess(plan, opt, rng, fmt))
        for e in rec.events:
            e.setdefault("ok", True)
            e.setdefault("kind", "")
            e.setdefault("model", "")
        return rec.events, {"argv": sys.argv[1:], "plan": plan, "opt": opt["argv"], "stderr": stderr.getvalue()[-300:], "fmt": fmt}
    finally:
        sys.argv, sys.path[:] = old_argv, old_path
        os.chdir(old_cwd)
        GLOBAL_REGISTRY.types[:] = saved_types
        GLOBAL_REGISTRY.replaces.clear()
        GLOBAL_REGISTRY.replaces.update(saved_repl)
        shutil.rmtree(work, ignore_errors=True)


# the option set of an "encode" plan
ENCODE_OPT = {"argv": ["-f", "pydantic"], "fw": "pydantic", "layout": "flat", "policy": [("percent", 70), ("number", 10)], "kw": {}}


DKF_OPT = {"argv": ["-f", "pydantic", "--dkf", "extra"], "fw": "pydantic", "layout": "flat", "policy": [("percent", 70), ("number", 10)], "kw": {},
           "env": {"dkf": ["extra"]}}


def cli_traces(chk, plans, fmts=("json",), sub_every=0):
    traces, inputs = [], {}
    for i, plan in enumerate(plans):
        opt = OPTION_SETS[i % len(OPTION_SETS)] if plan["fault"] in ("none", "generator") else OPTION_SETS[chk.rng.randrange(3)]
        fmt = fmts[i % len(fmts)]
        if "ini" in fmts and chk.rng.random() < 0.5 and not any(a.get("share") for a in plan["args"]) and \
                all(a["kind"] in ("object", "lookup", "malformed", "badlookup", "missing", "scalar", "noglob") for a in plan["args"]):
            fmt = "ini"         # plans that can be spelled as ini files are (half of the time): that loader has its own failure paths
        if plan["fault"] == "encode":
            opt, fmt = ENCODE_OPT, "json"
        if any(a["kind"] == "nonstrkey" for a in plan["args"]) and plan["fault"] == "none" and chk.rng.random() < 0.5:
            opt = DKF_OPT               # --dkf extra: the mapping with the non-string keys is then a Dict field, not a model
        evs, inp = run_plan(plan, opt, chk.rng, fmt, sub=bool(sub_every) and i % sub_every == 0)
        tid = "cli%d" % i
        traces.append({"id": tid, "events": evs})
        inputs[tid] = inp
    return traces, inputs


# ---------------------------------------------------------------------- C13 through the command line
def cli_generate_events(samples, dkf, dkr, extra_argv=()):
    """Run the real CLI on `samples` with --dkf/--dkr and capture what MetadataGenerator.generate was given and returned.
    The environment of the event is built with ANCHORED patterns: that is what the statement says for the command line."""
    from .project import Interner, val_node, type_node, make_env
    from . import record as R
    from .drive_header import run_main
    work = tempfile.mkdtemp(prefix="j2m-dk-")
    captured = []
    I = Interner()

    def mk(orig):
        def generate(self, *data):
            snap = [json.loads(json.dumps(d)) for d in data]
            r = orig(self, *data)
            # project at the return of the call: process_meta_data rewrites this structure in place later
            captured.append((self, snap, type_node(r, I)))
            return r
        return generate
    try:
        path = os.path.join(work, "in.json")
        with open(path, "w") as f:
            json.dump(samples, f)
        argv = ["-m", "Model", path] + list(extra_argv)
        if dkf:
            argv += ["--dkf"] + list(dkf)
        if dkr:
            argv += ["--dkr"] + list(dkr)
        with R.patched(MetadataGenerator, "generate", mk):
            status, out = run_main(argv)
    finally:
        shutil.rmtree(work, ignore_errors=True)
    if not captured:
        return [{"ev": "Generate", "samples": [val_node(s, I) for s in samples], "env": make_env(I, GLOBAL_REGISTRY), "result": None,
                 "exc": "cli status %s" % status}]
    gen, data, meta = captured[0]
    vals = [val_node(s, I) for s in data]
    res = meta
    env = make_env(I, gen.str_types_registry, dkf=dkf, dkr=dkr, anchored=True)
    return [{"ev": "Generate", "samples": vals, "env": env, "result": res, "exc": ""}]


def dict_option_cases(rng, n):
    """objects whose key sets match a pattern fully, only as a prefix, partially or not at all; at field, list-element and
    dict-value positions"""
    cases = []
    pats = [["k\\d"], ["k"], ["[a-z]+"], ["id_.*", "x"], ["k\\d", "n.*"], [".*"], ["k1|k2"],
            ["\\d+", "[0-9a-f]+"], ["k\\d", "k.*"], ["k1", "k\\d", "k.+"], ["[0-9a-f]+", "\\d+"],       # overlapping lists: order matters
            ["k|x"], ["a|b", "k\\d"], ["id|k1"], ["\\d+"], ["(?i)k\\d"], ["(?i)[a-z]+\\d?"], ["(?x) k \\d  # key"]]                                                # top-level alternation; trailing newline keys
    keysets = [["k1", "k2"], ["k1", "kx"], ["k", "k1"], ["k12", "k3"], ["name", "n"], ["id_1", "id_2"], ["x"], ["xy"], ["k1"], ["K1"], ["k1 "],
               ["10", "ff"], ["ff", "10"], ["k1", "kx", "k2"], ["kx", "k1"], ["kiwi", "xylophone"], ["apple", "ab"], ["k", "x"], ["a", "b"],
               ["id_x", "k1"], ["12\n", "34"], ["k1\n"]]
    for _ in range(n):
        dkr = rng.choice(pats)
        ks = rng.choice(keysets)
        obj = {k: rng.choice([1, "s", None, {"k1": 1}]) for k in ks}
        field = rng.choice(["data", "meta", "items"])
        pos = rng.choice(["field", "list", "dictvalue"])
        if pos == "field":
            s = {field: obj, "other": {"a": 1}}
        elif pos == "list":
            s = {field: [obj, dict(obj)], "other": 1}
        else:
            s = {field: {"k1": obj, "k2": dict(obj)}, "other": 1}
        dkf = rng.choice([[], [], ["meta"], [field]])
        cases.append(([s, json.loads(json.dumps(s))], dkf, dkr))
    return cases


# ---------------------------------------------------------------------- option vectors (MC_Opts) -> argv and library meaning
CFG_OPTS = """SPECIFICATION Spec
CONSTANTS
  Emit = TRUE
INVARIANT MetaOnlyWhereSupported
CHECK_DEADLOCK FALSE
"""


def mc_opts(chk):
    r = chk.model_check("MC_Opts", CFG_OPTS, "option vectors of the command line (framework x layout x merge policy x datetime x converters x "
                        "literal limit x unicode conversion x dict-key options x preamble x disabled types x meta)", workers=1)
    return [json.loads(t[1]) for t in tlc.printed_tuples(r["out"], "B")]


def option_set(o):
    """abstract option vector -> {"argv": ..., library-side meaning} (the table Opts of C16)"""
    argv = ["-f", o["fw"], "-s", o["layout"]]
    policy = {"default": [("percent", 70), ("number", 10)], "exact": [("exact", 0)], "percent_50": [("percent", 50)], "number_2": [("number", 2)],
              "percent_90 number_3": [("percent", 90), ("number", 3)], "exact number_1": [("exact", 0), ("number", 1)]}[o["merge"]]
    if o["merge"] != "default":
        argv += ["--merge"] + o["merge"].split()
    kw, env = {}, {}
    if o["datetime"]:
        argv.append("--datetime")
        env["datetime"] = True
    if o["converters"]:
        argv.append("--strings-converters")
        kw["post_init_converters"] = True
    if o["maxlit"] != 99:        # 99 = option not given
        argv += ["--max-strings-literals", str(o["maxlit"])]
        kw["max_literals"] = o["maxlit"]
    if o["nounicode"]:
        argv.append("--disable-unicode-conversion")
        kw["convert_unicode"] = False
    if o["dk"] in ("dkf", "both"):
        argv += ["--dkf", "extra", "child"]
        env["dkf"] = ["extra", "child"]
    if o["dk"] in ("dkr", "both"):
        argv += ["--dkr", "k\\d", "x"]
        env["dkr"] = ["k\\d\\Z", "x\\Z"]
    preamble = None
    if o["preamble"]:
        argv += ["--preamble", "  import os  "]
        preamble = "import os"
    if o["disable"] != "none":
        argv += ["--disable-str-serializable-types"] + o["disable"].split()
        env["disabled"] = o["disable"].split()
    if o["meta"]:
        argv += ["--code-generator-kwargs", "meta=true"]
        kw["meta"] = True
    return {"argv": argv, "fw": o["fw"], "layout": o["layout"], "policy": policy, "kw": kw, "env": env, "preamble": preamble}

"""Minimal stand-in for the sqlmodel package (not installed in this sandbox): enough to load generated code.
SQLModel behaves as a pydantic.v1 BaseModel; `table=True` is accepted and ignored; Field accepts primary_key."""
from pydantic.v1 import BaseModel
from pydantic.v1 import Field as _Field
from pydantic.v1.main import ModelMetaclass


class _Meta(ModelMetaclass):
    def __new__(mcs, name, bases, namespace, table=False, **kwargs):
        cls = super().__new__(mcs, name, bases, namespace, **kwargs)
        cls.__j2m_table__ = table
        return cls


class SQLModel(BaseModel, metaclass=_Meta):
    pass


def Field(default=..., *, primary_key=False, **kwargs):
    f = _Field(default, **kwargs)
    f.extra["primary_key"] = primary_key
    return f

"""Driver for C14 / C15 (spec/Session.tla, MC_Session.tla, Trace_Session.tla).

Jobs are full pipelines whose nested-layout rendering reads the reference-path context.  TLC enumerates
interleavings (threads) and call histories (incl. renders that fail midway); the harness forces each on the real code
with a cooperative scheduler whose yield points are the spec actions (Context.__enter__, every
AbsoluteModelRef.to_typing_code, Context.__exit__) and records them under one lock."""
import hashlib
import json
import os
import subprocess
import sys
import threading

from . import tlc
from . import record as R
from .project import REPO
from . import loadmod as LM
from . import drive_registry as DR
from . import drive_infer as DI
from json_to_models.dynamic_typing import AbsoluteModelRef, registry as GLOBAL_REGISTRY
from json_to_models.registry import ModelRegistry
from json_to_models.models.base import generate_code
from json_to_models.models.structure import compose_models, compose_models_flat


def dag_sample(tag):
    # inner {k, j} objects under two parents are merged into one model used by both: nested layout needs a path injection;
    # `z` sees three short strings: Literal[...] or str depending on the generator's max_literals (rendered last, in the root)
    return [{"a": {"x": {"k": 1, "j": tag}}, "b": {"y": {"k": 2, "j": tag}}, "z": z} for z in ("u", "v", "w")]


def conv_sample(tag):
    return [{"a": {"x": {"k": "1", "j": tag}}, "num": "1", "when": "2.5", "n": tag}]


def tree_sample(tag):
    return [{"a": {"x": {"k": 1, "j": tag}}, "n": tag}]


JOBS = {
    "j1": dict(root="Alpha", samples=dag_sample("p"), fw="pydantic", layout="nested", kw={}, fail_at=0),
    # same generator family as j1, other literal limit (generator options must not leak between pipelines)
    "j2": dict(root="Beta", samples=dag_sample("q"), fw="pydantic", layout="nested", kw={"max_literals": 2}, fail_at=0),
    "j3": dict(root="Gamma", samples=tree_sample("r"), fw="dataclasses", layout="nested", kw={}, fail_at=0),
    "f1": dict(root="Delta", samples=dag_sample("s"), fw="pydantic", layout="nested", kw={}, fail_at=4),
    "f2": dict(root="Eps", samples=dag_sample("t"), fw="dataclasses", layout="nested", kw={}, fail_at=5),
    # re-render from the registry of the previous successful j1 of the same history (other framework, other layout)
    "r1": dict(root="Alpha", samples=dag_sample("p"), fw="attrs", layout="flat", kw={}, fail_at=0, reuse="j1"),
    "r2": dict(root="Alpha", samples=dag_sample("p"), fw="pydantic", layout="nested", kw={}, fail_at=0, reuse="j1"),
    # string converters on: attrs / dataclasses build their decorator arguments on top of the base generator's
    "c1": dict(root="Conv", samples=conv_sample("c"), fw="attrs", layout="flat", kw={"post_init_converters": True}, fail_at=0),
    "c2": dict(root="Plain", samples=conv_sample("d"), fw="base", layout="flat", kw={"post_init_converters": True}, fail_at=0),
    "c3": dict(root="Dc", samples=conv_sample("e"), fw="dataclasses", layout="nested", kw={"post_init_converters": True, "meta": True}, fail_at=0),
    # model names that only SOME frameworks have to keep clear of (Config, Field, BaseModel, ... are names of pydantic): the registry is
    # rendered for pydantic, then the very same registry for a framework that knows none of them -- nothing a render leaves behind in the
    # shared model objects may show in the next one
    "n1": dict(root="Service", samples=[{"name": "s", "config": {"debug": True, "retries": 3}, "fields": [{"title": "a", "width": 1}],
                                        "base_model": {"json": 1, "copy": 2}}], fw="pydantic", layout="nested", kw={}, fail_at=0),
    "rn1": dict(root="Service", samples=[{"name": "s", "config": {"debug": True, "retries": 3}, "fields": [{"title": "a", "width": 1}],
                                         "base_model": {"json": 1, "copy": 2}}], fw="dataclasses", layout="flat", kw={}, fail_at=0, reuse="n1"),
    # the command line as a library object (Cli().parse_args(argv); run()): its options must stay in that call.  k1 asks for the date /
    # time pseudo-types and switches the float type off, k2 is the plain run on the same data
    "k1": dict(root="Ev", samples=[{"when": "2020-01-02", "at": "10:20:30", "n": "1.5", "sub": {"day": "1999-12-31"}}], fw="pydantic", layout="flat",
               kw={}, fail_at=0, cli=["--datetime", "--disable-str-serializable-types", "float", "-f", "pydantic"]),
    "k2": dict(root="Ev", samples=[{"when": "2020-01-02", "at": "10:20:30", "n": "1.5", "sub": {"day": "1999-12-31"}}], fw="pydantic", layout="flat",
               kw={}, fail_at=0, cli=["-f", "pydantic"]),
    # two whole pipelines of different shape whose models carry the SAME registry indexes (1A, 1B, 1C): observed step by step
    # (build steps are yield points too), so that anything a pipeline memoises process-wide under such an index is found out.
    # m1 merges `first` and `second`; m2 merges nothing.
    "m1": dict(root="Mx", samples=[{"first": {"a": 1, "b": 2, "c": 3}, "second": {"a": 4, "b": 5, "c": 6}}], fw="base", layout="flat", kw={},
               fail_at=0, build=True),
    "m2": dict(root="My", samples=[{"left": {"p": 1, "q": "s"}, "right": {"x": 1.5, "y": [1]}}], fw="base", layout="flat", kw={},
               fail_at=0, build=True),
}
JOB_NAMES = ("j1", "j2", "j3", "f1", "f2", "r1", "r2", "c1", "c2", "c3", "m1", "m2", "n1", "rn1", "k1", "k2")


def raising_class(base, fail_at):
    class Raising(base):
        calls = [0]

        def field_data(self, *a, **k):
            Raising.calls[0] += 1
            if Raising.calls[0] >= fail_at:
                raise RuntimeError("render failure injected by the harness (custom generator)")
            return super().field_data(*a, **k)
    Raising.calls = [0]
    return Raising


def build_registry(job):
    gen, _ = DI.make_generator({})
    reg = ModelRegistry()
    reg.process_meta_data(gen.generate(*json.loads(json.dumps(job["samples"]))), model_name=job["root"])
    reg.merge_models(gen)
    reg.generate_names()
    return reg


def render_cli(job):
    """the job through json_to_models.cli.Cli in this process; returns the text after the header"""
    import tempfile
    from json_to_models.cli import Cli
    from .drive_cli import strip_header
    with tempfile.TemporaryDirectory(prefix="j2m-sess-") as d:
        path = os.path.join(d, "in.json")
        with open(path, "w") as f:
            json.dump(job["samples"], f)
        cli = Cli()
        old = sys.argv
        sys.argv = ["json_to_models", "-m", job["root"], path] + list(job["cli"])
        try:
            cli.parse_args(sys.argv[1:])
            text = cli.run()
        finally:
            sys.argv = old
    return strip_header(text), None


def render(job, reg=None, on_structure=None):
    if job.get("cli"):
        return render_cli(job)
    reg = reg or build_registry(job)
    structure = (compose_models_flat if job["layout"] == "flat" else compose_models)(reg.models_map)
    if on_structure:
        on_structure(structure)
    cls = LM.GENERATORS[job["fw"]]
    if job["fail_at"]:
        cls = raising_class(cls, job["fail_at"])
    return generate_code(structure, cls, class_generator_kwargs=dict(job["kw"])), reg


def sha(s):
    return hashlib.sha256(s.encode()).hexdigest()[:16]


_FRESH = {}


def fresh_reference(name):
    """output of the job in a fresh process (nothing happened before it)"""
    if name not in _FRESH:
        code = ("import sys, json; sys.path.insert(0, %r); from harness import drive_session as S; "
                "t, _ = S.render(S.JOBS[%r]); sys.stdout.write(S.sha(t))" % (tlc.VERIF, name))
        env = dict(os.environ, PYTHONPATH=REPO, J2M_REPO=REPO, PYTHONDONTWRITEBYTECODE="1")
        p = subprocess.run([sys.executable, "-c", code], stdout=subprocess.PIPE, stderr=subprocess.PIPE, text=True, env=env, timeout=120)
        _FRESH[name] = p.stdout.strip() if p.returncode == 0 else "fresh-failed:" + p.stderr[-200:]
    return _FRESH[name]


class Sched:
    """cooperative scheduler: thread t may pass its next gate only when the schedule says it is t's turn"""

    def __init__(self, order):
        self.order, self.i, self.holder = list(order), 0, None
        self.cv = threading.Condition()
        self.stuck = False

    def gate(self, t):
        with self.cv:
            if self.holder == t:
                self.i += 1
                self.holder = None
                self.cv.notify_all()
            while self.i < len(self.order) and self.order[self.i] != t:
                if not self.cv.wait(timeout=10):
                    self.stuck = True
                    break
            self.holder = t

    def finish(self, t):
        with self.cv:
            if self.holder == t:
                self.i += 1
                self.holder = None
            self.cv.notify_all()


class SessionRecorder:
    def __init__(self, sched=None):
        self.lock = threading.Lock()
        self.events = []
        self.sched = sched
        self.jobs_by_mapping = {}
        self.tname = {}        # thread ident -> (thread name, current job)
        self.keep = []         # structures kept alive (their ids identify the jobs)

    def me(self):
        return self.tname.get(threading.get_ident(), ("?", "?"))

    def emit(self, ev, **kw):
        with self.lock:
            self.events.append(dict({"ev": ev, "seq": len(self.events) + 1}, **kw))

    def seen(self):
        c = getattr(AbsoluteModelRef.Context.data, "context", None)
        if c is None:
            return "none"
        return self.jobs_by_mapping.get(id(c), "other")

    def install(self):
        rec = self
        C = AbsoluteModelRef.Context

        def mk_enter(orig):
            def __enter__(self):
                t, job = rec.me()
                if rec.sched and t != "?":
                    rec.sched.gate(t)
                r = orig(self)
                if t != "?":
                    rec.emit("CtxEnter", t=t, job=job)
                return r
            return __enter__

        def mk_exit(orig):
            def __exit__(self, *a):
                t, job = rec.me()
                if rec.sched and t != "?":
                    rec.sched.gate(t)
                r = orig(self, *a)
                if t != "?":
                    rec.emit("CtxExit", t=t, job=job, failed=a[0] is not None)
                return r
            return __exit__

        def mk_read(orig):
            def to_typing_code(self, types_style):
                t, job = rec.me()
                if rec.sched and t != "?":
                    rec.sched.gate(t)
                if t != "?":
                    rec.emit("Read", t=t, job=job, seen=rec.seen())
                return orig(self, types_style)
            return to_typing_code
        def mk_build(what):
            def make(orig):
                def build_step(self, *a, **k):
                    t, job = rec.me()
                    if t != "?" and JOBS.get(job, {}).get("build"):
                        if rec.sched:
                            rec.sched.gate(t)
                        rec.emit("Build", t=t, job=job, what=what)
                    return orig(self, *a, **k)
                return build_step
            return make
        from json_to_models.generator import MetadataGenerator
        import contextlib
        st = contextlib.ExitStack()
        # (generate / process_meta_data are recursive and have no loop over pairs of models: they run between gates)
        def mk_cli_gencode(orig):
            def generate_code(structure, *a, **k):
                t, job = rec.me()
                if t != "?":
                    rec.jobs_by_mapping[id(structure[1])] = job
                    rec.keep.append(structure)
                return orig(structure, *a, **k)
            return generate_code
        import json_to_models.cli as CLI
        st.enter_context(R.patched(CLI, "generate_code", mk_cli_gencode))
        st.enter_context(R.patched(ModelRegistry, "merge_models", mk_build("merge_models")))
        st.enter_context(R.patched(ModelRegistry, "_models_cmp_fn", mk_build("compare")))
        st.enter_context(R.patched(ModelRegistry, "_merge", mk_build("merge_group")))
        st.enter_context(R.patched(C, "__enter__", mk_enter))
        st.enter_context(R.patched(C, "__exit__", mk_exit))
        st.enter_context(R.patched(AbsoluteModelRef, "to_typing_code", mk_read))
        return st


def reg_state():
    return ([c.__name__ for c in GLOBAL_REGISTRY.types], sorted((a.__name__, b.__name__) for a, b in GLOBAL_REGISTRY.replaces))


def run_program(prog, sched_order=None, solo=None, want_fresh=False, inline=False):
    """prog: {thread: [job names]}.  Runs every thread's jobs (forced interleaving if sched_order) and records the events."""
    rec = SessionRecorder(Sched(sched_order) if sched_order else None)
    reg0 = reg_state()
    results = {}

    def worker(t, jobs):
        history_regs = {}
        for name in jobs:
            rec.tname[threading.get_ident()] = (t, name)
            job = JOBS[name]
            out, exc = "", ""
            try:
                reuse = history_regs.get(job.get("reuse"))
                text, reg = render(job, reg=reuse, on_structure=lambda s: rec.jobs_by_mapping.__setitem__(id(s[1]), name) or results.setdefault("keep", []).append(s))
                out = sha(text)
                if not job.get("reuse"):
                    history_regs[name] = reg
            except Exception as e:
                exc = DI.exc_name(e)
            c = getattr(AbsoluteModelRef.Context.data, "context", None)
            rec.emit("Done", t=t, job=name, out=out, solo=(solo or {}).get(name, ""), fresh=fresh_reference(name) if want_fresh else "",
                     exc=exc, planned=bool(job["fail_at"]), ctxAfter="none" if c is None else "set", regSame=reg_state() == reg0)
        if rec.sched:
            rec.sched.finish(t)

    if inline:
        # on the calling (importing) thread: used to measure the jobs independently of what other threads can do
        with rec.install():
            for t, jobs in sorted(prog.items()):
                worker(t, jobs)
        return rec.events, False
    with rec.install():
        threads = [threading.Thread(target=worker, args=(t, jobs), name=t) for t, jobs in sorted(prog.items())]
        for th in threads:
            th.start()
        for th in threads:
            th.join(timeout=120)
    return rec.events, (rec.sched.stuck if rec.sched else False)


B = {}      # build steps per job (0 for the jobs whose build phase is not observed step by step); filled by measure()


def measure():
    """K (context reads) and F (reads before the planned failure) of every job, from solo runs; solo output hashes"""
    K, F, solo = {}, {}, {}
    B.clear()
    for name, job in list(JOBS.items()):
        evs, _ = run_program({"t1": [name]}, inline=True)
        reads = [e for e in evs if e["ev"] == "Read"]
        ok_job = dict(job, fail_at=0)
        JOBS["_tmp"] = ok_job
        evs_ok, _ = run_program({"t1": ["_tmp"]}, inline=True)
        del JOBS["_tmp"]
        K[name] = len([e for e in evs_ok if e["ev"] == "Read"])
        B[name] = len([e for e in evs if e["ev"] == "Build"])
        F[name] = len(reads) if job["fail_at"] else 99
        done = [e for e in evs if e["ev"] == "Done"][0]
        solo[name] = done["out"]
    return K, F, solo


CFG_SESSION = """SPECIFICATION Spec
CONSTANTS
  Threads <- MThreads
  Jobs <- MJobs
  K <- MK
  F <- MF
  B <- MB
  ProgSet <- MProgSet
  Shared = %s
  Emit = %s
  Mode = "%s"
%s
INVARIANT SoloEq
INVARIANT CtxRestored
INVARIANT EmitB
PROPERTY Terminates
CHECK_DEADLOCK FALSE
"""


def kcfg(K, F):
    return "\n".join(["  K%s = %d" % (j, K[j]) for j in JOB_NAMES] + ["  Ff1 = %d" % F["f1"], "  Ff2 = %d" % F["f2"]]
                     + ["  Bm1 = %d" % B["m1"], "  Bm2 = %d" % B["m2"]])


def mc_session(chk, mode, K, F, emit=True, workers=None):
    r = chk.model_check("MC_Session", CFG_SESSION % ("FALSE", "TRUE" if emit else "FALSE", mode, kcfg(K, F)),
                        "session state machine, mode %s (thread-local context): SoloEq CtxRestored, Terminates" % mode,
                        workers=1 if emit else workers)
    return [json.loads(t[1]) for t in tlc.printed_tuples(r["out"], "B")] if emit else []


def shared_counterexample(chk, K, F):
    """the model with ONE context for all threads must violate SoloEq: shows that the schedules discriminate"""
    r = tlc.run_tlc("MC_Session", (CFG_SESSION % ("TRUE", "FALSE", "t2", kcfg(K, F))).replace("INVARIANT CtxRestored\n", ""), workers=1)
    return "Invariant SoloEq is violated" in r["out"]


TRACE_CONSTS = """  Threads <- TThreads
  Jobs <- TJobs
  K <- TK
  F <- TF
  B <- TB
  ProgSet <- TProgSet
  Shared = FALSE
"""


def session_traces(behaviours, K, F, solo, want_fresh, prefix):
    traces, inputs = [], {}
    stuck = 0
    for i, b in enumerate(behaviours):
        prog = b["prog"]
        evs, st = run_program(prog, sched_order=b.get("sched"), solo=solo, want_fresh=want_fresh)
        stuck += bool(st)
        begin = {"ev": "Begin", "prog": {t: list(js) for t, js in prog.items()}}
        for e in evs:
            for k, v in (("t", ""), ("job", ""), ("seen", ""), ("what", ""), ("failed", False), ("out", ""), ("solo", ""), ("fresh", ""),
                         ("exc", ""), ("planned", False), ("ctxAfter", ""), ("regSame", True)):
                e.setdefault(k, v)
        tid = "%s%d" % (prefix, i)
        traces.append({"id": tid, "events": [begin] + evs})
        inputs[tid] = {"prog": prog, "sched": b.get("sched"), "stuck": st}
    return traces, inputs, stuck

"""Run-time instrumentation: wraps the functions that correspond to spec actions and logs one event per call,
in program order, in `finally` (so the error path is logged too).  Active only under J2M_VERIF=1; nothing in /repo
is changed -- wrappers are installed on classes / module globals and removed again (context manager)."""
import contextlib
import os


class Recorder:
    def __init__(self):
        self.events = []
        self.seq = 0

    def emit(self, ev, **kw):
        self.seq += 1
        self.events.append(dict({"ev": ev, "seq": self.seq}, **kw))


@contextlib.contextmanager
def patched(obj, name, make):
    """temporarily replace obj.name by make(original)"""
    missing = object()
    had = name in vars(obj)
    orig_attr = vars(obj).get(name, missing)
    orig = getattr(obj, name, None)
    setattr(obj, name, make(orig))
    try:
        yield
    finally:
        if had:
            setattr(obj, name, orig_attr)
        else:
            delattr(obj, name)


@contextlib.contextmanager
def cli_recording(rec, out_path, path_index):
    """Instrument json_to_models.cli for one run.  path_index: file name -> argument number of the plan."""
    if os.environ.get("J2M_VERIF") != "1":
        raise RuntimeError("instrumentation is guarded by J2M_VERIF=1")
    import builtins
    from json_to_models import cli as C
    from json_to_models.generator import MetadataGenerator
    state = {"cli": None}

    def arg_of(path):
        return path_index.get(os.path.basename(str(path)), 0)

    def mk_loader(orig):
        fn = orig.__func__ if isinstance(orig, staticmethod) else orig

        def loader(path):
            state["path"] = path
            try:
                return fn(path)
            except BaseException as e:
                rec.emit("Load", arg=arg_of(path), ok=False, err=type(e).__name__)
                raise
        return staticmethod(loader)

    def mk_iter(orig):
        def iter_json_file(data, lookup):
            path = state.get("path")
            try:
                for item in orig(data, lookup):
                    yield item
            except BaseException as e:
                rec.emit("Load", arg=arg_of(path), ok=False, err=type(e).__name__)
                raise
            rec.emit("Load", arg=arg_of(path), ok=True, err="")
        return iter_json_file

    def mk_method(evname):
        def make(orig):
            def method(self, *a, **k):
                try:
                    r = orig(self, *a, **k)
                except BaseException as e:
                    rec.emit(evname, ok=False, err=type(e).__name__)
                    raise
                rec.emit(evname, ok=True, err="")
                return r
            return method
        return make

    def mk_run(orig):
        def run(self, *a, **k):
            state["cli"] = self
            return orig(self, *a, **k)
        return run

    def mk_generate(orig):
        def generate(self, *samples):
            def sid_of(s):
                v = s.get("sid") if "sid" in s else (s.get("main") or {}).get("sid") if isinstance(s.get("main"), dict) else None
                if isinstance(v, str) and v.isdigit():       # ini files: every value is a string
                    v = int(v)
                return v if isinstance(v, int) and not isinstance(v, bool) else None
            ids = [sid_of(s) for s in samples if isinstance(s, dict) and sid_of(s) is not None]
            model = ""
            cli = state["cli"]
            if cli is not None:
                for name, data in cli.models_data.items():
                    if len(data) == len(samples) and all(a is b for a, b in zip(data, samples)):
                        model = name
            try:
                r = orig(self, *samples)
            except BaseException as e:
                rec.emit("Generate", model=model, ids=ids, ok=False, err=type(e).__name__)
                raise
            rec.emit("Generate", model=model, ids=ids, ok=True, err="")
            return r
        return generate

    def mk_gencode(orig):
        def generate_code(*a, **k):
            try:
                r = orig(*a, **k)
            except BaseException as e:
                rec.emit("Render", ok=False, err=type(e).__name__)
                raise
            rec.emit("Render", ok=True, err="")
            return r
        return generate_code

    class FileProxy:
        def __init__(self, f):
            self._f = f

        def write(self, data):
            n = self._f.write(data)
            rec.emit("Write", n=len(data))
            return n

        def __enter__(self):
            self._f.__enter__()
            return self

        def __exit__(self, *a):
            return self._f.__exit__(*a)

        def __getattr__(self, name):
            return getattr(self._f, name)

    def mk_open(_orig):
        def open_(file, mode="r", *a, **k):
            is_out = out_path is not None and os.path.abspath(str(file)) == os.path.abspath(out_path)
            if is_out:
                rec.emit("Open", mode=mode)
            f = builtins.open(file, mode, *a, **k)
            return FileProxy(f) if is_out else f
        return open_

    def mk_print(_orig):
        import io

        def print_(*a, **k):
            text = " ".join(str(x) for x in a)
            kind = "code" if text.startswith('r"""') or "\nclass " in text or text.startswith("class ") else "message"
            try:
                # what a UTF-8 stdout does with it (a real text stream, not a guess): it encodes the whole text first
                io.TextIOWrapper(io.BytesIO(), encoding="utf-8").write(text + "\n")
            except UnicodeError:
                rec.emit("Print", kind=kind, ok=False)
                raise
            rec.emit("Print", kind=kind, ok=True)
            state.setdefault("printed", []).append(text)
        return print_

    with contextlib.ExitStack() as st:
        for fmt in ("json", "yaml", "ini"):
            st.enter_context(patched(C.FileLoaders, fmt, mk_loader))
        st.enter_context(patched(C, "iter_json_file", mk_iter))
        st.enter_context(patched(C.Cli, "validate", mk_method("Validate")))
        st.enter_context(patched(C.Cli, "set_args", mk_method("SetArgs")))
        st.enter_context(patched(C.Cli, "run", mk_run))
        st.enter_context(patched(MetadataGenerator, "generate", mk_generate))
        st.enter_context(patched(C, "generate_code", mk_gencode))
        st.enter_context(patched(C, "open", mk_open))
        st.enter_context(patched(C, "print", mk_print))
        yield state

"""Per-property check procedures.  ./check <ID> --tier quick|thorough"""
import json
from . import tlc
from .core import Check
from . import drive_infer as DI


def infer_family(pid, tier, chk=None):
    """C01 C02 C07 C08 C13 at the metadata stage (MC_Infer + replay + Trace_Infer)."""
    chk = chk or Check(pid, tier)
    quick = tier == "quick"
    # loop A (+ B behaviours)
    beh = DI.mc_infer(chk, 2, "full", emit=True)
    chk.exhaustive_parts.append("MC_Infer: all lists of <=2 samples over the full one-field universe x 6 environments")
    if not quick:
        DI.mc_infer(chk, 3, "full", emit=False)
        beh += DI.mc_infer(chk, 2, "two", emit=True)
        chk.exhaustive_parts.append("MC_Infer: all lists of <=3 samples (one-field universe), <=2 samples (two-field universe)")
    else:
        beh3 = DI.mc_infer(chk, 3, "small", emit=True)
        beh += beh3
        chk.exhaustive_parts.append("MC_Infer: all lists of <=3 samples over the small universe x 3 environments")
    if pid == "C07":
        beh = [b for b in beh if len(b["samples"]) >= 2]
        if quick:
            beh = beh[::3]
    n_random = 300 if quick else 6000
    traces, inputs = DI.traces_for(pid, beh, chk, n_random)
    chk.rules.append("every sample list TLC enumerated for MC_Infer replayed on MetadataGenerator.generate (%d) + %d "
                     "seeded random nested inputs; non-trivial = a %s clause had a true antecedent; distinct by event content"
                     % (len(beh), n_random, pid))
    chk.validate("Trace_Infer", traces, inputs)
    if pid == "C08":
        t3, i3 = DI.optimize_traces(900 if quick else None)
        chk.rules.append("%d unions of Optional / nested-union / repeated members given to optimize_type directly, twice" % len(t3))
        chk.validate("Trace_Infer", t3, i3)
    if not quick and pid in ("C01", "C02", "C08", "C13"):
        t2, i2 = suite_traces(chk, ("Generate",))
        chk.rules.append("%d generate() calls made by the repository's own test-suite, recorded with harness/pytest_j2m.py" % len(t2))
        chk.validate("Trace_Infer", t2, i2, shard=50)
    return chk


def closure_family(chk, tier):
    """C05: every similarity graph (MC_Closure) replayed through a table-driven comparator."""
    nm = 5 if tier == "quick" else 6
    beh = DR.mc_closure(chk, nm, emit=True)
    chk.exhaustive_parts.append("MC_Closure: all %d symmetric relations on %d models (safety + termination); "
                                "each replayed on the real merge_models" % (len(beh), nm))
    if tier == "quick":
        beh = beh[::2]
    traces, inputs = DR.registry_traces(chk.pid, chk, DR.closure_cases(beh, nm))
    chk.rules.append("%d similarity tables replayed through TableCmp" % len(beh))
    chk.validate("Trace_Registry", traces, inputs, shard=40)
    bc = DR.boundary_cases(tier == "quick")
    traces, inputs = DR.registry_traces(chk.pid, chk, bc)
    chk.rules.append("%d comparator boundary cases (|a&b|, |a|b| <= 10) x 8 policies" % len(bc))
    chk.validate("Trace_Registry", traces, inputs, shard=40)





from . import drive_registry as DR


EDGE_ROOTS = [
    [("A", [{}]), ("B", [{}])],                               # two roots without fields
    [("A", [{}]), ("B", [{"x": 1}])],
    [("A", [{"x": {}}]), ("B", [{"x": {}}])],
    [("A", [{"x": 1}]), ("A2", [{"x": 2}]), ("B", [{"y": {"x": 1}}])],
    [("Only", [{"a": 1}])],
]


# an input on which wrapper types cached their hash strings while their content was still unregistered (found by the random driver;
# kept as a fixed case because the path is rare: list-element parents, look-alike children kept apart by number_2)
STALE_HASH_SAMPLES = json.loads(r'''[{"p": {"x": 1, "w": "1"}, "r": {"inner": {"v": {"k": "t", "j": 1}, "y": "s", "w": [{"k": 1}], "x": 1}, "x": "1.5"}, "q": [{"z": {"k": "t", "j": 1}, "x": {"k": 1}, "y": {"k": "t", "j": 1}, "v": 1}, {"z": {"k": 1}, "y": [{"k": 1}], "v": []}, {"y": true}]}, {"q": [{"x": "1", "v": "s"}, {"x": {"k": 1}, "z": {"k": "t", "j": 1}, "w": {}, "v": 1}], "p": {"x": ["a"], "w": 2.5, "v": "1", "z": true}, "items": {"x": ["a"], "y": true}, "r": {"inner": {"z": [{"k": 1}], "v": {}, "x": ["a"]}, "x": "s"}}, {"q": {"x": null, "v": null, "y": [], "z": 1}, "r": [{"y": ["a"]}, {"z": {"k": 1}, "w": 1, "x": "1.5", "v": {"k": 1}}], "p": [{"z": [{"k": 1}], "x": ["a"], "y": "1", "w": 2.5}, {"x": 2.5}, {"x": null, "v": true, "z": [{"k": 1}], "w": true}], "nodes": {"x": 1, "y": 2.5, "z": [1], "v": 1}}]''')


def registry_cases(chk, n_random):
    cases = []
    for roots in EDGE_ROOTS:
        for pol in DR.POLICIES:
            cases.append((roots, {}, pol, "edge"))
    cases.append(([("Root", json.loads(json.dumps(STALE_HASH_SAMPLES)))], {"disabled": ["FloatString"]}, [("number", 2)], "edge"))
    for _ in range(n_random):
        samples = DR.random_merge_input(chk.rng)
        envspec = chk.rng.choice(DI.RANDOM_ENVS[:3] + [{}, {"dkf": ["p", "items"]}, {"dkr": ["[xyz]", "k"]}, {"dkf": ["q"], "dkr": ["[a-z]"]}])
        cases.append(([("Root", samples)], envspec, chk.rng.choice(DR.POLICIES), "rnd"))
    return cases


def registry_family(pid, tier, chk=None):
    chk = chk or Check(pid, tier)
    quick = tier == "quick"
    n_random = 400 if quick else 5000
    cases = registry_cases(chk, n_random)
    mcr = DR.mc_registry(chk, "tiny1" if quick else "tiny2", emit=True)
    chk.exhaustive_parts.append("MC_Registry: registry pipeline over every input of universe %s x 4 policies (%d inputs)" % ("tiny1" if quick else "tiny2", len(mcr)))
    if not quick:
        DR.mc_registry(chk, "full1", emit=False)
        chk.exhaustive_parts.append("MC_Registry: universe full1 (every single sample with two nested objects over x, y, f) x 4 policies")
        chk.rng.shuffle(mcr)
        mcr = mcr[:4000]
    cases = mcr + DR.two_level_cases(chk.rng, 120 if quick else 1500) + DR.hidden_union_cases(chk.rng, 200 if quick else 3000) + cases
    traces, inputs = DR.registry_traces(pid, chk, cases)
    chk.rules.append("%d TLC-enumerated inputs of MC_Registry + %d seeded random nested inputs x merge policies through the real ModelRegistry "
                     "(generate, process_meta_data, merge_models, second optimise pass)" % (len(mcr), n_random))
    chk.validate("Trace_Registry", traces, inputs, shard=25)
    if not quick and pid in ("C05", "C08"):
        t2, i2 = suite_traces(chk, ("MergeModels",))
        chk.rules.append("%d merge_models() calls made by the repository's own test-suite" % len(t2))
        chk.validate("Trace_Registry", t2, i2, shard=25)
    return chk


from . import drive_strtypes as DS


def strtypes_family(chk, tier):
    quick = tier == "quick"
    corpus = DS.corpus_from_tlc(chk, 2 if quick else 3)
    if quick:
        more = DS.corpus_from_tlc.__wrapped__ if False else None
        # a seeded sample of 3-token strings on top of all <=2-token ones
        toks = sorted(DS.TOKENS)
        extra = {"".join(DS.TOKENS[chk.rng.choice(toks)] for _ in range(3)) for _ in range(1200)}
        corpus = sorted(set(corpus) | extra)
    corpus = sorted(set(corpus) | set(DS.MC_STR.values()) | {"", "1_000", " 12 ", "0x10", "1e309", "-0", "٣.٥", "TrUe", "2020-02-30", "24:00", "12", "10:30", "2018-01-02", "20180103", "2018-01-02T03:04:05", "1e3",
                                                                  "12:" + "9" * 320, "1234567890123456789012:00", "9" * 25 + "-01-02"} | DS.ALWAYS)
    configs = DS.registries_from_tlc(chk, 2 if quick else 3)
    # (three operations are beyond the quick bound: the histories that need them are given explicitly - registration repeated, then a
    # removal by class / by name)
    explicit = []
    for third in (["remove", "IsoTimeString"], ["remove", "IsoDateString"], ["disable", "time"], ["disable", "IsoDatetimeString"]):
        rest = [c for c in ("IsoDateString", "IsoTimeString", "IsoDatetimeString")
                if not (third[1] == c or (third[0] == "disable" and third[1] in ("time",) and c == "IsoTimeString"))]
        explicit.append({"ops": [["datetime", ""], ["datetime", ""], third], "types": ["IntString", "FloatString", "BooleanString"] + rest})
    chk.exhaustive_parts.append("MC_StrTypes: every registry reachable by <=%d register/disable operations; MC_StrGrammar: every string of <=%d tokens"
                                % (2 if quick else 3, 2 if quick else 3))
    if quick:
        configs = configs[::4]
    names = list(DS.CLS)
    if not quick:
        # detection / resolution depend on the registry content only: of the three-operation histories keep one per reached content
        seen, keep = set(), []
        for c in configs:
            key = (tuple(c["types"]), json.dumps(c.get("repl", []), sort_keys=True))
            if len(c["ops"]) <= 2 or key not in seen:
                keep.append(c)
            seen.add(key)
        configs = keep[::2]
    configs = configs + explicit
    orders = [chk.rng.sample(names, chk.rng.randint(2, 6)) for _ in range(4 if quick else 12)]
    traces, inputs, extra, I = DS.strtypes_traces(chk, corpus, configs, orders, detect_stride=3 if quick else 4)
    chk.rules.append("%d corpus strings x %d registries (TLC-enumerated op sequences + %d permuted orders): detection, "
                     "all subsets resolved, parse/render/parse of every accepted (string, type)" % (len(corpus), len(configs) + len(orders), len(orders)))
    chk.validate("Trace_StrTypes", traces, inputs, shard=8, batch_extra=extra)


from . import drive_cli as DC


def cli_family(pid, tier, chk):
    quick = tier == "quick"
    plans = DC.mc_cli(chk, 2, emit=True)
    chk.exhaustive_parts.append("MC_Cli: every plan with <=2 arguments (10 file kinds x -m/-l x 2 model names) x 4 output situations x 7 faults, "
                                "single fault per plan (%d plans): safety, OnlyWriteAfterRender, termination" % len(plans))
    if not quick and pid != "C16":
        DC.mc_cli(chk, 3, emit=False)
    if pid == "C16":
        plans += DC.mc_cli(chk, 3, emit=True, clean=True)
        chk.exhaustive_parts.append("MC_Cli (clean): every fault-free plan with <=3 arguments incl. the same file given twice")
        # C16 is about successful runs: the fault-free plans (every split of the samples over files / lookups / -m / -l)
        plans = [p for p in plans if p["fault"] == "none" and p["out"] != "unwritable"
                 and all(a["kind"] in ("list", "object", "lookup", "glob") for a in p["args"])]
    if quick:
        chk.rng.shuffle(plans)
        if pid == "C16":
            # half of the budget for the structurally interesting plans: a file given again under another model name,
            # the same file with two lookups, three arguments
            def score(p):
                a = p["args"]
                return sum(2 for x in a if x.get("alias") and x["model"] != a[0]["model"]) + sum(1 for x in a if x.get("alias") or x.get("share")) \
                    + (1 if len(a) == 3 else 0) + (1 if len(a) == 3 and a[1]["model"] == a[0]["model"] and not a[1].get("alias") else 0)
            ranked = sorted(plans, key=score, reverse=True)
            top = [p for p in ranked if score(p) >= 4]
            chk.rng.shuffle(top)
            # strata that must not depend on luck: the same pattern given twice, the same file with two lookups, -m and -l mixed
            def stratum(pred, k):
                pool = [p for p in plans if pred(p)]
                chk.rng.shuffle(pool)
                return pool[:k]
            must = stratum(lambda p: any(x.get("alias") and x["kind"] == "glob" for x in p["args"]), 25) \
                + stratum(lambda p: any(x.get("share") for x in p["args"]), 25) \
                + stratum(lambda p: len({x["flag"] for x in p["args"]}) == 2 and len({x["model"] for x in p["args"]}) == 1, 25)
            rest = [p for p in plans if p not in top[:110] and p not in must]
            plans = must + top[:110] + rest[:110]
        else:
            # C17: every faulty kind / fault x position of the faulty argument x existing output at least twice, then a random rest
            def key(p):
                bad = [i for i, x in enumerate(p["args"]) if x["kind"] not in ("list", "object", "lookup", "glob")]
                return (p["fault"], p["args"][bad[0]]["kind"] if bad else "", (bad[0], len(p["args"])) if bad else (), p["out"])
            seen, must, rest = {}, [], []
            for p in plans:
                k = key(p)
                if seen.get(k, 0) < 2:
                    seen[k] = seen.get(k, 0) + 1
                    must.append(p)
                else:
                    rest.append(p)
            plans = must + rest[: max(0, 420 - len(must))]
    traces, inputs = DC.cli_traces(chk, plans, fmts=("json", "json", "yaml", "ini"), sub_every=8 if quick else 3)
    chk.rules.append("%d TLC-enumerated CLI plans materialised as real files + argv and run through json_to_models.cli.main() with "
                     "recording wrappers (file loaders, validate, set_args, generate, generate_code, open, write, print)" % len(plans))
    if pid == "C16":
        # option vectors enumerated by TLC, each on a fixed fault-free plan
        vecs = DC.mc_opts(chk)
        chk.exhaustive_parts.append("MC_Opts: %d option vectors" % len(vecs))
        chk.rng.shuffle(vecs)
        vecs = vecs[: (120 if quick else 2500)]
        plan = {"args": [{"flag": "m", "model": "A", "kind": "list", "share": False, "alias": False, "ids": [11, 12]},
                         {"flag": "m", "model": "A", "kind": "object", "share": False, "alias": False, "ids": [21]},
                         {"flag": "l", "model": "B", "kind": "lookup", "share": False, "alias": False, "ids": [31]}], "out": "none", "fault": "none"}
        t2, i2 = [], {}
        for k, o in enumerate(vecs):
            evs, inp = DC.run_plan(dict(plan, out=("none", "absent")[k % 2]), DC.option_set(o), chk.rng, "json", sub=(k % (10 if quick else 4) == 0))
            t2.append({"id": "opt%d" % k, "events": evs})
            i2["opt%d" % k] = dict(inp, options=o)
        traces += t2
        inputs.update(i2)
        chk.rules.append("%d TLC-enumerated option vectors spelled as argv and as library calls" % len(vecs))
    chk.validate("Trace_Cli", traces, inputs, shard=40)


from . import drive_header as DH


def header_family(chk, tier):
    quick = tier == "quick"
    beh = DH.mc_header(chk, 5 if quick else 6)
    chk.exhaustive_parts.append("MC_Header: every command text of <=%d characters over 5 classes (Safe, Minimal)" % (5 if quick else 6))
    bad = [b for b in beh if not b["rawok"]]
    ok = [b for b in beh if b["rawok"]]
    chk.rng.shuffle(ok)
    chosen = bad + ok[: (150 if quick else 3000)]
    if quick:
        chk.rng.shuffle(chosen)
        chosen = chosen[:400]
    traces, inputs = DH.header_traces(chk, chosen, 60 if quick else 600)
    chk.rules.append("%d TLC-enumerated command texts (all that would break an unescaped header + a sample of the others) put on a real "
                     "command line; preamble texts incl. docstrings, triple quotes, backslashes, non-ASCII, blank" % len(chosen))
    chk.validate("Trace_Header", traces, inputs, shard=40)


from . import drive_session as DSS


def session_family(pid, tier, chk):
    quick = tier == "quick"
    K, F, solo = DSS.measure()
    chk.extra["measured_job_steps"] = {"K": K, "F": F}
    extra = {"threads": ["t1", "t2", "t3"], "K": K, "F": F, "B": dict(DSS.B)}
    chk.extra["measured_job_steps"]["B"] = dict(DSS.B)
    if not DSS.shared_counterexample(chk, K, F):
        raise tlc.MachineryError("the shared-context variant of Session.tla no longer violates SoloEq: the schedules would not discriminate")
    chk.extra["shared_context_variant_refuted_by_TLC"] = True
    if pid == "C15":
        beh = DSS.mc_session(chk, "t2", K, F, emit=True)
        chk.exhaustive_parts.append("MC_Session: every interleaving of 2 threads (%d schedules) with thread-local context; "
                                    "shared-context variant refuted" % len(beh))
        if not quick:
            DSS.mc_session(chk, "t3", K, F, emit=False)
            chk.exhaustive_parts.append("MC_Session: every interleaving of 3 threads")
        chk.rng.shuffle(beh)
        beh = beh[: (150 if quick else 3000)]
        # two whole pipelines, build steps included (merge_models, every comparison, every group merge)
        behb = DSS.mc_session(chk, "t2b", K, F, emit=True)
        chk.exhaustive_parts.append("MC_Session t2b: every interleaving of two whole pipelines incl. %d + %d build steps (%d schedules)"
                                    % (DSS.B["m1"], DSS.B["m2"], len(behb)))
        chk.rng.shuffle(behb)
        beh += behb[: (150 if quick else 3000)]
        traces, inputs, stuck = DSS.session_traces(beh, K, F, solo, False, "sch")
        # single calls from a fresh worker thread, and free-running threads under a minimal switch interval
        import sys as _sys
        old = _sys.getswitchinterval()
        _sys.setswitchinterval(1e-6)
        try:
            free = []
            for n in ([2, 3, 4, 8] if quick else [2, 3, 4, 5, 6, 7, 8] * 20):
                names = (["j1", "j2", "j3", "j1", "j2", "j3", "j1", "j2"] if len(free) % 2 == 0 else ["m1", "m2", "j3", "m1", "m2", "j1", "m2", "m1"])[:n]
                free.append({"prog": {"t%d" % (k + 1): [names[k]] * 3 for k in range(n)}})
            free.append({"prog": {"t1": ["j1"]}})
            extra["threads"] = ["t%d" % k for k in range(1, 9)]
            t2, i2, _ = DSS.session_traces(free, K, F, solo, False, "free")
        finally:
            _sys.setswitchinterval(old)
        chk.rules.append("%d TLC-enumerated 2-thread interleavings forced on real threads by a cooperative scheduler at the spec's "
                         "yield points + %d free-running runs of 2-8 threads (switch interval 1e-6) + a call from a fresh worker thread; "
                         "%d schedules could not be imposed" % (len(beh), len(free), stuck))
        chk.validate("Trace_Session", traces + t2, dict(inputs, **i2), shard=40, extra_constants=DSS.TRACE_CONSTS, batch_extra=extra)
    else:
        beh = DSS.mc_session(chk, "hist3" if quick else "hist", K, F, emit=True)
        chk.exhaustive_parts.append("MC_Session: every history of <=%d calls over {nested DAG render, tree render, render failing after 1 / 2 "
                                    "reads, re-render of an earlier registry for another framework/layout} (%d histories)" % (3 if quick else 4, len(beh)))
        for b in beh:
            b.pop("sched", None)
        traces, inputs, _ = DSS.session_traces(beh, K, F, solo, True, "hist")
        chk.rules.append("%d TLC-enumerated call histories replayed in one process; after every call the output hash is compared with a "
                         "fresh-process reference and the hidden state (thread context, default registry) is logged" % len(beh))
        chk.validate("Trace_Session", traces, inputs, shard=40, extra_constants=DSS.TRACE_CONSTS, batch_extra=extra)


from . import drive_order as DO


def order_family(chk, tier):
    quick = tier == "quick"
    if not DO.mc_order(chk):
        raise tlc.MachineryError("the unsorted variant of Order.tla is no longer refuted by TLC")
    chk.exhaustive_parts.append("MC_Order: 125 registries with a 3-member merge group x every pair of iteration orders (Deterministic); "
                                "unsorted variant refuted")
    seeds = list(range(6)) if quick else list(range(16))
    t1, i1 = DO.seed_traces(chk, 40 if quick else 400, seeds)
    t2, i2 = DO.forced_order_traces(chk, 40 if quick else 400)
    chk.rules.append("%d inputs reaching the hash-ordered sites x %d PYTHONHASHSEED values through the real CLI in fresh processes; "
                     "%d inputs x 6 forced iteration orders of ModelMeta sets + repeated in-process runs" % (len(t1), len(seeds), len(t2)))
    graphs = DL.mc_layout(chk, 3 if quick else 4, emit=True)
    if not quick:
        chk.rng.shuffle(graphs)
        graphs = graphs[:3000]
    t3, i3 = DO.layout_seed_traces(graphs, seeds)
    chk.rules.append("%d TLC-enumerated model graphs (MC_Layout) laid out flat and nested in fresh processes under each seed" % len(graphs))
    t4, i4 = DO.words_traces(chk, 3 if quick else 4)
    chk.exhaustive_parts.append("MC_Names: distinct_words over every set of <=%d words with explicit iteration orders" % (3 if quick else 4))
    chk.validate("Trace_Order", t1 + t2 + t3 + t4, dict(dict(dict(i1, **i2), **i3), **i4), shard=40)


def replay_case(pid, path):
    """./check <ID> --replay FILE : re-execute the stored concrete case on the current tree (where the family allows it),
    validate the fresh trace with TLC under the same claim, report the verdict.  Exit 1 if it still fails."""
    import json as _json
    case = _json.load(open(path))
    module, inp, trace = case.get("module"), case.get("input") or {}, case["trace"]
    chk = Check(pid, "quick")
    fresh = None
    try:
        if module == "Trace_Infer" and "samples" in inp and "dkf" not in inp:
            if pid == "C07":
                t, _ = DI.traces_for(pid, [], chk, 0)
            fresh = {"id": trace["id"], "events": [DI.generate_event(inp["samples"], inp.get("env", {}))]}
        elif module == "Trace_Infer" and "dkf" in inp:
            fresh = {"id": trace["id"], "events": DC.cli_generate_events(inp["samples"], inp["dkf"], inp["dkr"])}
        elif module == "Trace_Registry" and "roots" in inp:
            roots = [(r[0], r[1]) for r in inp["roots"]]
            pol = [tuple(x) if x[0] != "table" else ("table", [tuple(map(tuple, pr)) for pr in x[1]]) for x in inp["policy"]]
            t, _ = DR.registry_traces(pid, chk, [(roots, inp.get("env", {}), pol, "replay")])
            fresh = dict(t[0], id=trace["id"])
        elif module == "Trace_Module" and "roots" in inp:
            c = dict(inp, roots=[(r[0], r[1]) for r in inp["roots"]], policy=[tuple(x) for x in inp["policy"]])
            c.pop("texts", None)
            t, _ = DM.module_traces(pid, chk, [c])
            fresh = dict(t[0], id=trace["id"])
        elif module == "Trace_Cli" and "plan" in inp:
            opt = next((o for o in DC.OPTION_SETS if o["argv"] == inp.get("opt")), DC.OPTION_SETS[0])
            evs, _ = DC.run_plan(inp["plan"], opt, chk.rng, inp.get("fmt", "json"), sub=True)
            fresh = {"id": trace["id"], "events": evs}
    except Exception as e:
        print("NOTE replay: could not re-execute (%s); validating the stored trace" % e)
    how = "re-executed on the current tree" if fresh else "stored trace (this family is re-validated, not re-executed)"
    extra = {}
    kw = {}
    if module == "Trace_Session":
        K, F, _ = DSS.measure()
        kw = dict(extra_constants=DSS.TRACE_CONSTS, batch_extra={"threads": ["t%d" % k for k in range(1, 9)], "K": K, "F": F})
    if module == "Trace_StrTypes":
        print("NOTE replay: Trace_StrTypes needs the corpus acceptance table; re-run ./check C09 instead")
        return 2
    v, _ = tlc.validate_traces(module, pid, [fresh or trace], **kw)
    verdict = list(v.values())[0]
    print("REPLAY %s %s: %s -> verdict %s (live %s)" % (pid, path, how, verdict["verdict"], verdict["live"]))
    if verdict["verdict"] != "ok":
        print("VIOLATION property=%s replay=%s clause=%s" % (pid, path, verdict["verdict"]))
        return 1
    return 0


from . import drive_layout as DL


def layout_family(chk, tier):
    quick = tier == "quick"
    beh = DL.mc_layout(chk, 3 if quick else 4, emit=True)
    beh += DL.mc_layout(chk, 3, two_roots=True, emit=True)
    chk.exhaustive_parts.append("MC_Layout: every rooted model graph on %d models (and on 3 models with a second root): layouts place "
                                "each model once, root first, nested classes in their referrer" % (3 if quick else 4))
    if not quick:
        chk.rng.shuffle(beh)
        beh = beh[:6000]
    traces, inputs = DL.layout_traces(beh)
    chk.rules.append("%d TLC-enumerated model graphs rebuilt from real ModelMeta / ModelPtr objects and laid out by the real "
                     "compose_models / compose_models_flat" % len(beh))
    chk.validate("Trace_Layout", traces, inputs, shard=60)


def run(pid, tier, replay=None):
    if replay:
        return replay_case(pid, replay)
    chk = Check(pid, tier)
    if pid in ("C01", "C02", "C07", "C08", "C13"):
        infer_family(pid, tier, chk)
        registry_family(pid, tier, chk)
        if pid == "C01":
            module_family(pid, tier, chk)
        if pid == "C13":
            cases = DC.dict_option_cases(chk.rng, 150 if tier == "quick" else 2500)
            traces, inputs = [], {}
            for i, (samples, dkf, dkr) in enumerate(cases):
                traces.append({"id": "dk%d" % i, "events": DC.cli_generate_events(samples, dkf, dkr)})
                inputs["dk%d" % i] = {"samples": samples, "dkf": dkf, "dkr": dkr, "via": "command line (patterns anchored)"}
            chk.rules.append("%d dict-option cases through the real command line (--dkf / --dkr; key sets matching fully, as prefix, partially)" % len(cases))
            chk.validate("Trace_Infer", traces, inputs, shard=25)
        return chk.finish()
    if pid in ("C03", "C04", "C10", "C11", "C12", "C18"):
        if pid == "C12":
            layout_family(chk, tier)
            registry_family(pid, tier, chk)       # the layouts of real registry graphs, judged and followed by Layout.tla
        if pid == "C11":
            t, i = DM.label_traces(chk, 3)
            chk.exhaustive_parts.append("MC_Labels: label pipeline on every pair of keys of <=3 characters over a 7-character alphabet "
                                        "(valid identifiers; equal labels only for fold-equal keys); every key replayed on prepare_label")
            chk.validate("Trace_Labels", t, i, shard=2)
        module_family(pid, tier, chk)
        return chk.finish()
    if pid in ("C16", "C17"):
        cli_family(pid, tier, chk)
        return chk.finish()
    if pid in ("C14", "C15"):
        session_family(pid, tier, chk)
        return chk.finish()
    if pid == "C06":
        order_family(chk, tier)
        return chk.finish()
    if pid == "C19":
        header_family(chk, tier)
        return chk.finish()
    if pid == "C09":
        strtypes_family(chk, tier)
        return chk.finish()
    if pid == "C05":
        closure_family(chk, tier)
        registry_family(pid, tier, chk)
        return chk.finish()
    raise tlc.MachineryError("no check for %s" % pid)


from . import drive_module as DM


def module_family(pid, tier, chk, n=None):
    quick = tier == "quick"
    n = n or (250 if quick else 4000)
    cases = DM.module_cases_random(chk, n)
    what = "%d seeded random nested inputs with styled keys x frameworks x layouts x options" % n
    m = 300 if quick else 5000
    if pid in ("C03", "C04", "C11"):
        kc, total = DM.key_shape_cases(chk, 2 if quick else 3, 250 if quick else 4000)
        chk.exhaustive_parts.append("MC_Keys: key-shape grammar, %d shapes enumerated by TLC (%d instantiated)" % (total, len(kc)))
        cases += kc
        what += " + %d TLC-enumerated key shapes (keywords, builtins, typing / imported / pydantic names, non-ASCII; camel/_/- joins)" % len(kc)
    if pid == "C01":
        mp = DM.mixed_pseudo_cases(chk, 150 if quick else 2000)
        cases += mp
        what += " + %d fields mixing two pseudo-types (date/datetime/time/int/float/bool strings, plain strings)" % len(mp)
    if pid == "C10":
        lit = DM.mc_lit_cases(chk)
        chk.exhaustive_parts.append("MC_Lit: every abstract literal case (%d): the algorithm layer obeys the literal rule" % len(lit))
        chk.rng.shuffle(lit)
        lit = lit[: (300 if quick else 5000)]
        cases += lit
        what += " + %d TLC-enumerated literal cases of MC_Lit" % len(lit)
        cases += DM.literal_cases(chk, m)
        what += " + %d literal-set cases (counts 0..17, lengths around 20, quote/backslash/newline/comma/non-BMP content, max 0..16)" % m
    elif pid == "C11":
        cases += DM.key_cases(chk, m)
        what += " + %d wide-alphabet key sets (quotes, backslashes, hyphens, dots, non-ASCII; in and out of the documented domain)" % m
    if pid in ("C03", "C04", "C01"):
        fx = DM.fixed_module_cases()
        cases += fx
        what += " + %d fixed cases (optional pseudo-typed fields, optional containers, nested model; every framework, converters on / off)" % len(fx)
    if pid in ("C03", "C04", "C11"):
        rn = DM.reserved_name_cases(chk, 120 if quick else 2000)
        cases += rn
        what += " + %d keys named after what the module imports (pseudo-types, typing, framework names; as written / snake case; class / field)" % len(rn)
    elif pid == "C12":
        cases = cases[: n // 2] + DM.tree_cases(chk, m)
        what += " + %d tree-shaped inputs rendered in both layouts" % m
    elif pid == "C18":
        cases = cases[: n // 2] + DM.converter_cases(chk, m)
        what += " + %d converter-path cases (pseudo-typed leaves under List/Dict/Optional nesting <= 3, converters on/off)" % m
    traces, inputs = DM.module_traces(pid, chk, cases)
    chk.rules.append(what + " through the full pipeline; emitted text parsed, executed and introspected")
    chk.validate("Trace_Module", traces, inputs, shard=16)
    if pid == "C18":
        # the converter functions themselves, on every type shape TLC enumerates (MongoDB-style: one implementation test per case
        # of the transcribed function)
        from . import drive_conv as DCV
        depth = 2 if quick else 3
        cc = DCV.mc_conv(chk, depth)
        if not quick:
            DCV.mc_conv(chk, 4, emit=False)
        chk.exhaustive_parts.append("MC_Conv: every field type of <=%d Optional/List/Dict wrappers over 10 leaf types x small inhabitants (%d cases): "
                                    "work-list loop + path interpreter = property layer; each case replayed on get_string_field_paths / "
                                    "_process_string_field_value" % (depth, len(cc)))
        t3, i3 = DCV.conv_traces(cc)
        chk.rules.append("%d TLC-enumerated (type, value) cases rebuilt as real IR + evaluated typing code and run through the real converter functions" % len(cc))
        chk.validate("Trace_Conv", t3, i3, shard=40)


def suite_traces(chk, kinds):
    """Run the repository's own test-suite with the recorder plugin and return its executions as traces."""
    import json as _json, os as _os, subprocess as _sp, sys as _sys, tempfile as _tf
    from .project import REPO
    out = _tf.mktemp(prefix="j2m-suite-", suffix=".json")
    env = dict(_os.environ, J2M_VERIF="1", J2M_TRACE_OUT=out, PYTHONPATH=_os.pathsep.join([tlc.VERIF, REPO]), PYTHONDONTWRITEBYTECODE="1")
    p = _sp.run([_sys.executable, "-m", "pytest", "-q", "-p", "no:cacheprovider", "-p", "harness.pytest_j2m", "-x", "-q",
                 "test/test_generator", "test/test_registry", "test/test_code_generation", "test/test_dynamic_typing", "test/test_cli/test_self_validate_pydantic.py"],
                cwd=REPO, env=env, stdout=_sp.PIPE, stderr=_sp.STDOUT, text=True, timeout=1800)
    if not _os.path.exists(out):
        raise tlc.MachineryError("the repository's test-suite produced no trace file:\n" + p.stdout[-1500:])
    evs = _json.load(open(out))
    _os.unlink(out)
    traces, inputs = [], {}
    for i, e in enumerate(evs):
        if e["ev"] not in kinds:
            continue
        tid = "suite%d" % i
        test = e.pop("test", "")
        if e["ev"] == "MergeModels":
            e = [{"ev": "Begin"}, e]
        else:
            e = [e]
        traces.append({"id": tid, "events": e})
        inputs[tid] = {"from_repository_test": test}
    chk.extra["repository_test_suite"] = {"pytest_tail": p.stdout.strip().splitlines()[-1:], "events_recorded": len(evs), "traces": len(traces)}
    return traces, inputs

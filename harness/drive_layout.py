"""Driver for models/structure.py (spec/Layout.tla, MC_Layout.tla, Trace_Layout.tla)."""
import json

from . import tlc
from .project import REPO  # noqa: F401  (puts the repository on sys.path)
from json_to_models.dynamic_typing import ModelMeta, ModelPtr
from json_to_models.models.structure import compose_models, compose_models_flat
from .drive_registry import ixnum

CFG_LAYOUT = """SPECIFICATION Spec
CONSTANTS
  N = %d
  Emit = %s
  TwoRoots = %s
INVARIANT NoError
INVARIANT OnceFlat
INVARIANT OnceNested
INVARIANT RootFirstFlat
INVARIANT Placement
CHECK_DEADLOCK FALSE
"""


def mc_layout(chk, n, two_roots=False, emit=True):
    r = chk.model_check("MC_Layout", CFG_LAYOUT % (n, "TRUE" if emit else "FALSE", "TRUE" if two_roots else "FALSE"),
                        "layout algorithms (compose_models, compose_models_flat with positions bookkeeping) on every rooted graph of "
                        "%d models%s: NoError OnceFlat OnceNested RootFirstFlat Placement" % (n, " (+ a second root)" if two_roots else ""))
    return [json.loads(t[1]) for t in tlc.printed_tuples(r["out"], "B")] if emit else []


def real_index(i):
    """1 -> '1A', 2 -> '1B', ... 27 -> '2A' (what utils.Index produces)"""
    i -= 1
    return "%d%s" % (i // 26 + 1, chr(65 + i % 26))


def build_graph(ms):
    """abstract graph -> models_map of real ModelMeta objects wired with real ModelPtr objects (registry order = ms order)"""
    metas = {m["ix"]: ModelMeta({}, real_index(int(m["ix"]))) for m in ms}
    keep = []
    for m in ms:
        meta = metas[m["ix"]]
        for parent, field in m["inc"]:
            if parent == "":
                keep.append(ModelPtr(meta))
            else:
                pm = metas[parent]
                ptr = ModelPtr(meta, parent=pm, parent_field_name="%s_%s" % (field, m["ix"]))
                pm.type["%s_%s" % (field, m["ix"])] = ptr
        meta.set_raw_name("M" + m["ix"])
    return {metas[m["ix"]].index: metas[m["ix"]] for m in ms}, keep


def compose_event(ms):
    ev = {"ev": "Compose", "ms": [{"ix": m["ix"], "inc": [list(p) for p in m["inc"]]} for m in ms],
          "nested": {"roots": [], "children": {m["ix"]: [] for m in ms}, "inj": []}, "flat": [], "exc": ""}
    try:
        mm, keep = build_graph(ms)
        roots, inj = compose_models(mm)

        def walk(struct):
            ix = ixnum(struct["model"].index)
            ev["nested"]["children"][ix] = [ixnum(c["model"].index) for c in struct["nested"]]
            for c in struct["nested"]:
                if c is not struct:
                    walk_guard(c)
        seen = set()

        def walk_guard(struct):
            if id(struct) in seen:
                return
            seen.add(id(struct))
            walk(struct)
        ev["nested"]["roots"] = [ixnum(s["model"].index) for s in roots]
        for s in roots:
            walk_guard(s)
        # structures that were nested somewhere unreachable from the roots still have children lists: record them too
        ev["nested"]["inj"] = sorted([ixnum(k.index), ixnum(v.index)] for k, v in inj.items())
        mm2, keep2 = build_graph(ms)
        flat, _ = compose_models_flat(mm2)
        ev["flat"] = [ixnum(s["model"].index) for s in flat]
    except Exception as e:
        ev["exc"] = "%s: %s" % (type(e).__name__, str(e)[:80])
    return ev


def layout_traces(behaviours, prefix="lay"):
    traces, inputs = [], {}
    for i, b in enumerate(behaviours):
        ms = [{"ix": m["ix"], "inc": [tuple(p) for p in m["inc"]]} for m in b["ms"]]
        tid = "%s%d" % (prefix, i)
        traces.append({"id": tid, "events": [compose_event(ms)]})
        inputs[tid] = {"graph": b["ms"]}
    return traces, inputs

"""Driver for the converter paths (spec/Conv.tla, MC_Conv.tla, Trace_Conv.tla): C18 at function level.

loop A  TLC checks MC_Conv: on every field type of <= MaxDepth wrappers and every small inhabitant the transcribed work-list loop
        of get_string_field_paths and the transcribed path interpreter compute what the property layer (Render!HasPath / Leaves,
        Conv!ExpectedC) demands
loop B  every (type, value) case TLC enumerated is rebuilt as real IR objects and real typing annotations and run through the real
        get_string_field_paths / _process_string_field_value
loop C  the recorded events are judged by TLC (Trace_Conv)"""
import json
import typing

from . import tlc
from .project import N, type_node
from . import drive_infer as DI
from .drive_strtypes import canon_value
from json_to_models.dynamic_typing import (ModelMeta, ModelPtr, StringSerializable, metadata_to_typing, IntString, FloatString,
                                           BooleanString, IsoDateString, IsoTimeString, IsoDatetimeString)
from json_to_models.models.string_converters import get_string_field_paths, _process_string_field_value

CFG_CONV = """SPECIFICATION Spec
CONSTANTS
  MaxDepth = %d
  Emit = %s
INVARIANT StackBound
INVARIANT PathOK
INVARIANT ConvOK
INVARIANT RunAgrees
PROPERTY Terminates
CHECK_DEADLOCK FALSE
"""
STR = {"sA": "a", "sB": "b", "sInt": "1", "sFlt": "1.5", "sBool": "true", "sDate": "2020-01-02"}
IDS = {v: k for k, v in STR.items()}
CLS = {c.__name__: c for c in (IntString, FloatString, BooleanString, IsoDateString, IsoTimeString, IsoDatetimeString)}


class FixedInterner:
    """the ids of the model's string universe; anything else (canonical forms of parsed values) gets a fresh id"""

    def __init__(self):
        self.extra = {}

    def __call__(self, s):
        if s in IDS:
            return IDS[s]
        return self.extra.setdefault(s, "x%d" % len(self.extra))


def build_ir(node, child):
    """abstract type node -> real IR (pointers point at `child`)"""
    if node["k"] == "ptr":
        return ModelPtr(child)
    if node["k"] in ("opt", "list", "dict"):
        from json_to_models.dynamic_typing import DOptional, DList, DDict
        return {"opt": DOptional, "list": DList, "dict": DDict}[node["k"]](build_ir(node["xs"][0], child))
    if node["k"] == "union":
        from json_to_models.dynamic_typing import DUnion
        u = DUnion()
        u.types = [build_ir(x, child) for x in node["xs"]]
        return u
    return DI.build_type(node, STR)


def conv_event(b, I=None):
    I = I or FixedInterner()
    ev = {"ev": "Conv", "t": b["t"], "v": b["v"], "has": False, "path": [], "out": b["v"], "exc": "", "parsed": {}}
    try:
        child = ModelMeta({"a": int}, "9")
        child.name = "Child"
        ir = build_ir(b["t"], child)
        model = ModelMeta({"f": ir}, "1")
        model.name = "Root"
        paths = get_string_field_paths(model)
        value = DI.concretise(b["v"], STR)
        strings = set()
        _strings(value, strings)
        ev["parsed"] = {cn: {I(s): I(canon_value(c.to_internal_value(s))) for s in strings if _parses(c, s)} for cn, c in CLS.items()}
        if paths:
            (name, path), = paths
            ev["has"], ev["path"] = True, list(path)
            # the annotation as the emitted module has it: the typing code of the field, evaluated
            _, code = metadata_to_typing(ir)
            ns = dict(vars(typing), **CLS)
            ns["Child"] = child
            ann = eval(code, ns)
            out = _process_string_field_value(path=list(path) or ["S"], value=value, current_type=ann)
        else:
            out = value
        from .drive_module import inst_node
        ev["out"] = inst_node(out, I)
    except Exception as e:
        ev["exc"] = DI.exc_name(e)
    return ev


def _parses(c, s):
    try:
        c.to_internal_value(s)
        return True
    except Exception:
        return False


def _strings(v, out):
    if isinstance(v, str):
        out.add(v)
    elif isinstance(v, dict):
        for x in v.values():
            _strings(x, out)
    elif isinstance(v, list):
        for x in v:
            _strings(x, out)


def mc_conv(chk, depth, emit=True):
    r = chk.model_check("MC_Conv", CFG_CONV % (depth, "TRUE" if emit else "FALSE"),
                        "converter paths: every field type of <=%d Optional/List/Dict wrappers over 10 leaves x small inhabitants: the "
                        "work-list loop and the path interpreter agree with the property layer (StackBound PathOK ConvOK RunAgrees, Terminates)" % depth,
                        workers=1 if emit else None)
    seen, out = set(), []
    for t in (tlc.printed_tuples(r["out"], "B") if emit else []):
        if t[1] not in seen:       # (TLC may evaluate the printing conjunct more than once per state)
            seen.add(t[1])
            out.append(json.loads(t[1]))
    return out


def conv_traces(cases):
    evs = [conv_event(b) for b in cases]
    traces = [{"id": "conv%d" % i, "events": evs[i:i + 50]} for i in range(0, len(evs), 50)]
    inputs = {t["id"]: {"first_type": t["events"][0]["t"], "first_value": t["events"][0]["v"]} for t in traces}
    return traces, inputs

---------------------------------- MODULE Conv ----------------------------------
(***************************************************************************)
(* ALGORITHM LAYER for json_to_models/models/string_converters.py:          *)
(*                                                                          *)
(*   get_string_field_paths  - per field a work-list loop over the type:    *)
(*        PInit / PStep (one `tokens.pop()` per step) / PResult             *)
(*   _process_string_field_value - interpreter of a path over a value:      *)
(*        Process(path, v, t, optional)                                     *)
(*   BaseModelCodeGenerator.string_field_paths - "name#O.L.S" rendering     *)
(*                                                                          *)
(* PROPERTY LAYER (C18) lives in Render.tla: Leaves / HasPath / Expected.   *)
(* MC_Conv checks on every type of <= MaxDepth wrappers that the algorithm  *)
(* layer computes exactly what the property layer demands; Trace_Conv binds *)
(* both to the real functions.                                              *)
(***************************************************************************)
EXTENDS Render

TokenOf(k) == CASE k = "opt" -> "O" [] k = "list" -> "L" [] k = "dict" -> "D" [] OTHER -> "?"

\* ---- get_string_field_paths, the loop body for one field
\* state: [tokens: Seq(<<type, path>>), paths: Seq(path), brk: BOOLEAN]; a path starts with "#"
PInit(t) == [tokens |-> << <<t, <<"#">> >> >>, paths |-> <<>>, brk |-> FALSE]
PDone(st) == st.tokens = <<>>
PStep(st) ==
  LET n    == Len(st.tokens)
      top  == st.tokens[n]                       \* tokens.pop(): the last one
      rest == SubSeq(st.tokens, 1, n - 1)
      t    == top[1]
      p    == top[2]
  IN CASE t.k = "pseudo" -> [st EXCEPT !.tokens = rest, !.paths = Append(@, p \o <<"S">>)]
       [] t.k \in {"opt", "list", "dict"} ->
            [st EXCEPT !.tokens = rest \o [i \in DOMAIN t.xs |-> <<t.xs[i], p \o <<TokenOf(t.k)>> >>]]
       [] t.k \in {"union", "ptr"} -> [st EXCEPT !.tokens = <<>>, !.paths = <<>>, !.brk = TRUE]     \* "We could not resolve Union"
       [] OTHER -> [st EXCEPT !.tokens = rest]      \* int/float/bool/str classes, Null, Unknown, StringLiteral, raw dict: nothing
RECURSIVE PRun(_, _)
PRun(st, fuel) == IF PDone(st) \/ fuel = 0 THEN st ELSE PRun(PStep(st), fuel - 1)
\* ("".join(p[1:]) for the single path; 'S' alone is the empty path)
PResult(st) == IF Len(st.paths) # 1 THEN [has |-> FALSE, path |-> <<>>]
               ELSE LET p == Tail(st.paths[1]) IN [has |-> TRUE, path |-> IF p = <<"S">> THEN <<>> ELSE p]
Paths(t) == PResult(PRun(PInit(t), 64))
\* string_field_paths / post_init_converters: "name" or "name#O.L.S"; a missing '#' means ['S']
FullPath(r) == IF r.path = <<>> THEN <<"S">> ELSE r.path

\* ---- _process_string_field_value(path, value, current_type, optional)
\* parse: [class -> [string id -> canonical id of the parsed value]] (harness- or model-supplied); absent = ValueError
PAt(parse, c, s) == IF c \in DOMAIN parse THEN (IF s \in DOMAIN parse[c] THEN parse[c][s] ELSE "") ELSE ""
CRASH == N("CRASH", "", {}, <<>>, <<>>)
HasCrash(v) == v.k = "CRASH"
RECURSIVE Process(_, _, _, _, _)
Process(path, v, t, optional, parse) ==
  LET tok == Head(path) rest == Tail(path) IN
  CASE tok = "S" ->
         IF v.k = "str" /\ t.k = "pseudo" /\ PAt(parse, t.n, v.n) # "" THEN N("conv", t.n, {PAt(parse, t.n, v.n)}, <<>>, <<>>)
         ELSE IF optional THEN v ELSE CRASH
    [] tok = "O" -> IF v.k = "null" THEN v ELSE Process(rest, v, t.xs[1], TRUE, parse)
    [] tok = "L" -> IF v.k # "list" THEN CRASH
                    ELSE LET ys == [i \in DOMAIN v.xs |-> Process(rest, v.xs[i], t.xs[1], optional, parse)]
                         IN IF \E i \in DOMAIN ys : HasCrash(ys[i]) THEN CRASH ELSE [v EXCEPT !.xs = ys]
    [] tok = "D" -> IF v.k # "obj" THEN CRASH
                    ELSE LET ys == [i \in DOMAIN v.xs |-> Process(rest, v.xs[i], t.xs[1], optional, parse)]
                         IN IF \E i \in DOMAIN ys : HasCrash(ys[i]) THEN CRASH ELSE [v EXCEPT !.xs = ys]
    [] OTHER -> CRASH
ConvertField(v, t, parse) == LET r == Paths(t) IN IF r.has THEN Process(FullPath(r), v, t, FALSE, parse) ELSE v

\* ---- property layer, with the parse table (Render!Expected tags with the source string; here with the parsed value)
RECURSIVE ExpectedC(_, _, _)
ExpectedC(v, t, parse) ==
  CASE t.k = "pseudo" -> IF v.k = "str" /\ PAt(parse, t.n, v.n) # "" THEN N("conv", t.n, {PAt(parse, t.n, v.n)}, <<>>, <<>>) ELSE v
    [] t.k = "opt" -> IF v.k = "null" THEN v ELSE ExpectedC(v, t.xs[1], parse)
    [] t.k \in {"list", "dict"} -> [v EXCEPT !.xs = [i \in DOMAIN v.xs |-> ExpectedC(v.xs[i], t.xs[1], parse)]]
    [] OTHER -> v
\* the one leaf path of a convertible type
LeafPath(t) == CHOOSE p \in Leaves(t) : TRUE
PathSpec(t) == IF HasPath(t) THEN [has |-> TRUE, path |-> IF LeafPath(t) = <<"S">> THEN <<>> ELSE LeafPath(t)]
               ELSE [has |-> FALSE, path |-> <<>>]
WantConv(v, t, parse) == IF HasPath(t) THEN ExpectedC(v, t, parse) ELSE v
=============================================================================

-------------------------------- MODULE MC_Labels --------------------------------
(***************************************************************************)
(* Every pair of keys of <= MaxLen characters over the alphabet:            *)
(*   Valid      a key with a leading letter gives a valid identifier        *)
(*   ClassVsField  the class name of a key differs from its field name      *)
(*   Injective  two such keys get the same field label only if they are     *)
(*              equal after case/punctuation folding (C11's domain claim)   *)
(* Every key is emitted ("B") and compared with the real prepare_label.     *)
(***************************************************************************)
EXTENDS Labels, Json
CONSTANTS MaxLen, Emit
Alphabet == {"a", "B", "f", "i", "1", "_", "-"}
Keys == UNION {[1..n -> Alphabet] : n \in 1..MaxLen}
VARIABLES k1, k2
Init == k1 \in Keys /\ k2 \in Keys /\ (Emit /\ k2 = <<"a">> => PrintT(<<"B", ToJson([key |-> k1, field |-> FieldLabel(k1), cls |-> ClassLabel(k1), clsname |-> ClassName(k1)])>>))
Next == UNCHANGED <<k1, k2>>
Spec == Init /\ [][Next]_<<k1, k2>>
Valid == LeadsWithLetter(k1) => ValidIdent(FieldLabel(k1)) /\ ValidIdent(ClassLabel(k1))
\* the class made for the object under a key never has the name of the field that holds it (first word character a letter or a digit)
LeadsWithLetterOrDigit(k) == LET w == StripNonWord(k) IN w # <<>> /\ w[1] \in Lower \cup Upper \cup Digit
ClassVsField == LeadsWithLetterOrDigit(k1) => (ClassName(k1) # FieldLabel(k1) /\ ValidIdent(ClassName(k1)))
Injective == (LeadsWithLetter(k1) /\ LeadsWithLetter(k2) /\ FieldLabel(k1) = FieldLabel(k2)) => Fold(k1) = Fold(k2)
=============================================================================

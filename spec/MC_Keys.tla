--------------------------------- MODULE MC_Keys ---------------------------------
(***************************************************************************)
(* The key-shape grammar of C03 / C11 as a prefix-tree state machine: a key *)
(* is a sequence of <= MaxSeg segments, each with a kind and the separator  *)
(* that joins it to the previous one.  Every key shape is emitted ("B");    *)
(* the harness instantiates kinds with words and uses the key both as a     *)
(* scalar field and as the key of a nested object (class name).             *)
(*   kinds: lower, Cap, UPPER, keyword, builtin, typing name, name imported *)
(*          by generated code, pydantic attribute, non-ASCII word, digit    *)
(*   separators: camel (capitalise), "_", "-", none                         *)
(* Invariant: the grammar never produces a key that starts with a digit or  *)
(* an underscore (C03's key domain).                                        *)
(***************************************************************************)
EXTENDS Naturals, Sequences, TLC, Json
CONSTANTS MaxSeg, Emit
Kinds == {"lower", "cap", "upper", "keyword", "builtin", "typing", "fwimport", "pydattr", "nonascii", "digit"}
Seps == {"camel", "under", "hyphen", "none"}
VARIABLE key
Init == key = <<>>
Next == \E k \in Kinds, s \in Seps :
          /\ Len(key) < MaxSeg
          /\ (key = <<>> => (s = "none" /\ k # "digit"))          \* first segment: no separator, not a digit
          /\ key' = Append(key, [kind |-> k, sep |-> s])
Spec == Init /\ [][Next]_key
InDomain == key # <<>> => key[1].kind # "digit"
EmitB == (Emit /\ key # <<>>) => PrintT(<<"B", ToJson(key)>>)
=============================================================================

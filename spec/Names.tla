---------------------------------- MODULE Names ----------------------------------
(***************************************************************************)
(* Naming of models (utils.distinct_words, ModelMeta.generate_name,         *)
(* ModelRegistry.fix_name_duplicates / generate_names).                     *)
(*                                                                          *)
(* distinct_words iterates over a *set* of words and, inside, over a copy   *)
(* of the set built so far, adding and removing elements: both iteration    *)
(* orders are hash orders.  The state machine makes them explicit choices   *)
(* so that TLC decides whether the result depends on them (C06).            *)
(*   Words are sequences of characters; `a in b` is substring containment.  *)
(*   DwSpec result: the words none of whose proper sub-words is in the set. *)
(*                                                                          *)
(* fix_name_duplicates walks the models in registry order with a counter    *)
(* per name and renames the 2nd, 3rd ... holder of a name to name_index.    *)
(***************************************************************************)
EXTENDS NamesBase

\* ---------------------------------------------------------------- distinct_words
CONSTANTS WordUniverse, MaxWords
VARIABLES words, todo, filtered, cur, inner, flag, pc
dvars == <<words, todo, filtered, cur, inner, flag, pc>>

DwInit == /\ words \in {S \in SUBSET WordUniverse : Cardinality(S) <= MaxWords /\ S # {}}
          /\ todo = words /\ filtered = {} /\ cur = <<>> /\ inner = {} /\ flag = TRUE /\ pc = "outer"
\* for name in words:            (set iteration: any not yet visited word)
Outer == /\ pc = "outer" /\ todo # {}
         /\ \E w \in todo : cur' = w /\ todo' = todo \ {w}
         /\ inner' = filtered /\ flag' = TRUE /\ pc' = "inner"       \* for other in list(filtered): a snapshot
         /\ UNCHANGED <<words, filtered>>
\* one iteration of the inner loop over the snapshot (any order)
Inner == /\ pc = "inner" /\ inner # {}
         /\ \E o \in inner :
              /\ inner' = inner \ {o}
              /\ IF IsSub(cur, o) THEN filtered' = (filtered \cup {cur}) \ {o} /\ flag' = FALSE
                 ELSE IF IsSub(o, cur) THEN filtered' = filtered /\ flag' = FALSE
                 ELSE filtered' = filtered /\ flag' = flag
         /\ UNCHANGED <<words, todo, cur, pc>>
EndInner == /\ pc = "inner" /\ inner = {}
            /\ filtered' = IF flag THEN filtered \cup {cur} ELSE filtered
            /\ pc' = "outer" /\ UNCHANGED <<words, todo, cur, inner, flag>>
Done == pc = "outer" /\ todo = {}
DwNext == Outer \/ Inner \/ EndInner
DwSpec == DwInit /\ [][DwNext]_dvars

OrderFree == Done => filtered = Minimal(words)
Antichain == pc = "outer" => \A a, b \in filtered : a # b => ~IsSub(a, b)

\* ---------------------------------------------------------------- fix_name_duplicates
\* names: sequence (registry order) of [ix, name]; returns the sequence after the loop
RECURSIVE FixDup(_, _, _)
FixDup(ms, i, counter) ==
  IF i > Len(ms) THEN ms
  ELSE LET key == IF ms[i].name # "" THEN ms[i].name ELSE ms[i].ix            \* counter[model.name or model.index] += 1
           c2  == [counter EXCEPT ![key] = @ + 1]
           n   == IF ms[i].name # "" THEN c2[ms[i].name] ELSE 0               \* counter[model.name] (None: fresh 0)
       IN IF n > 1 THEN FixDup([ms EXCEPT ![i] = [ix |-> ms[i].ix, name |-> ms[i].name \o "_" \o ms[i].ix]], i + 1, c2)
          ELSE FixDup(ms, i + 1, c2)
FixDuplicates(ms) ==
  FixDup(ms, 1, [k \in {ms[i].name : i \in DOMAIN ms} \cup {ms[i].ix : i \in DOMAIN ms} |-> 0])
AllDistinct(ms) == Cardinality({ms[i].name : i \in DOMAIN ms}) = Len(ms)
=============================================================================

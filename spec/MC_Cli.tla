-------------------------------- MODULE MC_Cli --------------------------------
(***************************************************************************)
(* Bounded instance of Cli: every plan with <= MaxArgs arguments over the   *)
(* file kinds, two model names, -m / -l flags, every output situation and   *)
(* every single fault.  Each plan is emitted ("B") and materialised by the  *)
(* harness as real files and a real command line.                           *)
(***************************************************************************)
EXTENDS Cli, Json
CONSTANTS MaxArgs, Emit, Clean      \* Clean = TRUE: only fault-free plans (used to afford three arguments)

Kinds == OkKinds \cup LoadFails \cup GenFails
\* sample ids: argument i contributes ids 10*i + 1 .. (list: two, others: one)
IdsOf(i, kind) == IF kind \in {"list", "glob"} THEN <<10 * i + 1, 10 * i + 2>>
                  ELSE IF kind \in {"object", "lookup", "nonobject", "nonstrkey"} THEN <<10 * i + 1>> ELSE <<>>
\* share = TRUE: this argument names the SAME physical file as argument 1, with another lookup;
\* alias = TRUE: it names exactly the same file and lookup as argument 1 again (possibly under another model name)
KindSet == IF Clean THEN OkKinds ELSE Kinds
Plain == [flag : {"m", "l"}, model : {"A", "B"}, kind : KindSet, share : {FALSE}, alias : {FALSE}]
FirstArgs == {a \in Plain : a.model = "A"}
\* what may follow a first argument f: any plain argument, the same file with another lookup (share), exactly the same argument again (alias)
Later(f) == Plain
            \cup (IF f.kind = "lookup" THEN [flag : {"m", "l"}, model : {"A", "B"}, kind : {"lookup"}, share : {TRUE}, alias : {FALSE}] ELSE {})
            \cup (IF f.kind \in {"list", "object", "lookup", "glob"}
                  THEN [flag : {"m", "l"}, model : {"A", "B"}, kind : {f.kind}, share : {FALSE}, alias : {TRUE}] ELSE {})
ArgsN(n) == CASE n = 1 -> {<<f>> : f \in FirstArgs}
              [] n = 2 -> UNION {{<<f, a>> : a \in Later(f)} : f \in FirstArgs}
              [] OTHER -> UNION {{<<f, a, b>> : a \in Later(f), b \in Later(f)} : f \in FirstArgs}
ArgsSets == UNION {ArgsN(n) : n \in 1..MaxArgs}
\* at most one faulty thing per plan
FaultCount(as) == Cardinality({i \in DOMAIN as : as[i].kind \notin OkKinds})
Plans == {[args |-> [i \in DOMAIN as |-> [flag |-> as[i].flag, model |-> as[i].model, kind |-> as[i].kind, share |-> as[i].share,
                                            alias |-> as[i].alias,
                                            ids |-> IF as[i].alias THEN IdsOf(1, as[1].kind) ELSE IdsOf(i, as[i].kind)]],
           out |-> o, fault |-> f] :
          as \in {x \in ArgsSets : FaultCount(x) <= 1},
          o \in (IF Clean THEN {"none", "absent", "old"} ELSE {"none", "absent", "old", "unwritable"}),
          f \in (IF Clean THEN {"none"} ELSE {"none", "argparse", "merge", "fwgen", "mergearg", "import", "generator", "encode"})}
GoodPlans == {p \in Plans : (FaultCount(p.args) = 0 \/ p.fault = "none") /\ (p.out # "unwritable" \/ (p.fault = "none" /\ FaultCount(p.args) = 0))}

Init == \E p \in GoodPlans : InitWith(p) /\ (Emit => PrintT(<<"B", ToJson(p)>>))
Spec == Init /\ [][Next]_vars /\ WF_vars(Next)
=============================================================================

------------------------------ MODULE Trace_Layout ------------------------------
(***************************************************************************)
(* Trace specification for models/structure.py.  Event                      *)
(*   Compose  ms (ix, inc), nested [roots, nested: ix -> children, inj],    *)
(*            flat (list of ix), exc                                        *)
(* recorded from the real compose_models / compose_models_flat on graphs    *)
(* built from real ModelMeta / ModelPtr objects.  Clauses: C12 (each model  *)
(* placed exactly once in both layouts, flat starts with a root, nested     *)
(* classes sit in their referrer for trees).  Drift: the recorded structure *)
(* is not what Layout!Nested / Layout!Flat compute.                         *)
(***************************************************************************)
EXTENDS Layout, Json, IOUtils, TLCExt
CONSTANT Claim
Batch  == JsonDeserialize(IOEnv.TRACE_FILE)
Traces == Batch.traces
VARIABLES tid, l, verdict, drift, live
vars == <<tid, l, verdict, drift, live>>
Events == Traces[tid].events
Ev     == Events[l]

FixMs(ms) == [i \in DOMAIN ms |-> [ix |-> ms[i].ix, inc |-> {<<ms[i].inc[j][1], ms[i].inc[j][2]>> : j \in DOMAIN ms[i].inc}]]
ObsNested(ev, ms) == [roots |-> ev.nested.roots, nested |-> [ix \in Ix(ms) |-> ev.nested.children[ix]]]
Clauses(ev) ==
  IF Claim # "C12" \/ ev.ev # "Compose" THEN <<>> ELSE
  LET ms == FixMs(ev.ms)
      ok == ev.exc = ""
      on == IF ok THEN ObsNested(ev, ms) ELSE <<>>
      of == [list |-> ev.flat]
  IN << <<"C12.compose-total", TRUE, ok>>,
        <<"C12.once.flat", ok, ~ok \/ EachOnceFlat(ms, of)>>,
        <<"C12.once.nested", ok, ~ok \/ EachOnceNested(ms, on)>>,
        <<"C12.root-first", ok, ~ok \/ RootFirst(ms, of)>>,
        <<"C12.placement", ok /\ Tree(ms), ~(ok /\ Tree(ms)) \/ PlacedInReferrer(ms, on)>> >>
Drifts(ev) ==
  ev.ev = "Compose" /\ ev.exc = "" /\
  LET ms == FixMs(ev.ms) n == Nested(ms) f == Flat(ms) IN
  \/ f.list # ev.flat
  \/ n.roots # ev.nested.roots
  \/ \E ix \in Ix(ms) : n.nested[ix] # ev.nested.children[ix]
  \/ {<<k, n.inj[k]>> : k \in DOMAIN n.inj} # {<<ev.nested.inj[i][1], ev.nested.inj[i][2]>> : i \in DOMAIN ev.nested.inj}

FirstFailing(cs) == LET bad == {i \in DOMAIN cs : ~cs[i][3]} IN IF bad = {} THEN "ok" ELSE cs[Min(bad)][1]
LiveOf(cs) == {cs[i][1] : i \in {j \in DOMAIN cs : cs[j][2]}}
Init == /\ tid \in DOMAIN Traces /\ l = 1 /\ verdict = "ok" /\ drift = 0 /\ live = {}
Step == /\ verdict = "ok" /\ l # 0 /\ l <= Len(Events)
        /\ LET cs == Clauses(Ev) f == FirstFailing(cs) IN
           /\ verdict' = f /\ live' = live \cup LiveOf(cs)
           /\ drift' = IF drift = 0 /\ Drifts(Ev) THEN l ELSE drift
           /\ l' = IF f = "ok" THEN l + 1 ELSE l
           /\ UNCHANGED tid
Finish == /\ l # 0 /\ (verdict # "ok" \/ l > Len(Events))
          /\ PrintT(<<"VERDICT", Traces[tid].id, verdict, drift, live, l>>)
          /\ l' = 0 /\ UNCHANGED <<tid, verdict, drift, live>>
Next == Step \/ Finish
TraceSpec == Init /\ [][Next]_vars
=============================================================================

------------------------------- MODULE Registry -------------------------------
(***************************************************************************)
(* Model registry (json_to_models/registry.py, dynamic_typing/models_meta). *)
(*                                                                          *)
(* Abstract state: `models` = sequence (registration order) of              *)
(*     [ix: model index, t: obj type whose nested models are ptr leaves]    *)
(* and `next` = the index counter.  Indices are decimal strings "1", "2".. *)
(* (the harness maps the real "1A", "1B", ... "2A" onto them in order).     *)
(*                                                                          *)
(* ALGORITHM LAYER                                                          *)
(*   Register     ModelRegistry.process_meta_data  (DFS, pre-order indices) *)
(*   Sim          _models_cmp_fn (ANY configured comparator)                *)
(*   InitGroups   the models2merge dict and the initial group list          *)
(*   PassOut/Flag one iteration of the `while flag` closure loop (replaced  *)
(*                in the code by a traversal: TraversalGroups)              *)
(*   MergeGroup   _merge: merge_field_sets, unregister, retarget pointers   *)
(*   MergeModels  merge_models incl. the final optimise-everything pass     *)
(* PROPERTY LAYER                                                           *)
(*   Components, PartitionOK, FieldsUnionOK, UntouchedOK, PointersOK,       *)
(*   CanonGraph (models up to renaming)                                     *)
(***************************************************************************)
EXTENDS Infer

\* ------------------------------------------------------------ Register (DFS)
RECURSIVE RegType(_, _)
RECURSIVE RegSeq(_, _, _)
RegSeq(xs, st, acc) ==
  IF xs = <<>> THEN [st |-> st, xs |-> acc]
  ELSE LET r == RegType(Head(xs), st) IN IF r = r THEN RegSeq(Tail(xs), r.st, Append(acc, r.t)) ELSE r
RegType(t, st) ==
  IF t.k = "obj" THEN
     LET my  == ToString(st.next)
         pos == Len(st.models) + 1
         st1 == [next |-> st.next + 1, models |-> Append(st.models, [ix |-> my, t |-> t])]
         r   == RegSeq(t.xs, st1, <<>>)
         m   == [ix |-> my, t |-> TObj(t.ks, r.xs)]
     IN [st |-> [next |-> r.st.next, models |-> [r.st.models EXCEPT ![pos] = m]], t |-> TPtr(my)]
  ELSE IF t.k \in {"opt", "list", "dict", "union"} THEN
     LET r == RegSeq(t.xs, st, <<>>) IN [st |-> r.st, t |-> [t EXCEPT !.xs = r.xs]]
  ELSE [st |-> st, t |-> t]
\* register one more root metadata into state st; returns [st, root]
Register(meta, st) == LET r == RegType(meta, st) IN [st |-> r.st, root |-> r.t.n]
EmptyReg == [next |-> 1, models |-> <<>>]

\* ---------------------------------------------------------------- comparators
\* policy = sequence of [kind |-> "exact" | "percent" | "number" | "table", num |-> Nat, pairs |-> set of {ixa, ixb}]
KeysOf(m) == ToSet(m.t.ks)
CmpOne(c, a, b, ia, ib) ==
  CASE c.kind = "exact"   -> a = b
    [] c.kind = "percent" -> Cardinality(a \cap b) * 100 >= c.num * Cardinality(a \cup b)
    [] c.kind = "number"  -> Cardinality(a \cap b) >= c.num
    [] c.kind = "table"   -> {ia, ib} \in c.pairs
    [] OTHER -> FALSE
SimM(policy, ma, mb) == \E i \in DOMAIN policy : CmpOne(policy[i], KeysOf(ma), KeysOf(mb), ma.ix, mb.ix)

\* ------------------------------------------------- groups, faithful list order
\* ordered de-duplication (first occurrences), as OrderedSet does; non-recursive so that long lists do not exhaust the stack
Dedup(s, acc) == LET idx == SelectSeq([i \in DOMAIN s |-> i], LAMBDA i : \A j \in 1..(i - 1) : s[j] # s[i])
                 IN acc \o [k \in DOMAIN idx |-> s[idx[k]]]
PairSeq(n) == FlattenSeq([i \in 1..n |-> [d \in 1..(n - i) |-> <<i, i + d>>]])
\* positions (in ms) of each initial group, in the insertion order of the models2merge dict
InitGroups(ms, policy) ==
  LET n == Len(ms)
      sim(i, j) == SimM(policy, ms[i], ms[j])
      ps == SelectSeq(PairSeq(n), LAMBDA p : sim(p[1], p[2]))
      keyOrder == Dedup(FlattenSeq([k \in DOMAIN ps |-> <<ps[k][1], ps[k][2]>>]), <<>>)
      nbr(i) == {j \in 1..n : j # i /\ sim(i, j)}
  IN [k \in DOMAIN keyOrder |-> {keyOrder[k]} \cup nbr(keyOrder[k])]
\* one pass of the `while flag` loop over the group list
PassOut(groups) ==
  LET n == Len(groups)
      row(i) == LET js == SelectSeq([j \in 1..n |-> j], LAMBDA j : j # i /\ groups[i] \cap groups[j] # {})
                IN IF js = <<>> THEN <<groups[i]>> ELSE [k \in DOMAIN js |-> groups[i] \cup groups[js[k]]]
  IN Dedup(FlattenSeq([i \in 1..n |-> row(i)]), <<>>)
Flag(groups) == \E i, j \in DOMAIN groups : i # j /\ groups[i] \cap groups[j] # {}
RECURSIVE Closure(_)
Closure(groups) == IF Flag(groups) THEN (LET g2 == PassOut(groups) IN IF g2 = g2 THEN Closure(g2) ELSE g2) ELSE groups

\* merge_models (since the repair of the exponential loop): the connected components of the similarity graph by a traversal,
\* one per not yet grouped key of the models2merge dict, i.e. in the order in which their first member got a partner.
\* (PassOut / Closure above is the loop it replaced; MC_Closure checks for every relation that both give the same list.)
RECURSIVE ReachPos(_, _, _, _)
ReachPos(S, ms, policy, k) ==
  IF k = 0 THEN S
  ELSE LET S2 == S \cup {j \in DOMAIN ms : \E i \in S : i # j /\ SimM(policy, ms[i], ms[j])}
       IN IF S2 = S THEN S ELSE ReachPos(S2, ms, policy, k - 1)
TraversalGroups(ms, policy) ==
  LET n == Len(ms)
      sim(i, j) == SimM(policy, ms[i], ms[j])
      ps == SelectSeq(PairSeq(n), LAMBDA p : sim(p[1], p[2]))
      keyOrder == Dedup(FlattenSeq([k \in DOMAIN ps |-> <<ps[k][1], ps[k][2]>>]), <<>>)
      comps == [k \in DOMAIN keyOrder |-> ReachPos({keyOrder[k]}, ms, policy, n)]
      firsts == SelectSeq([k \in DOMAIN keyOrder |-> k], LAMBDA k : \A j \in 1..(k - 1) : keyOrder[k] \notin comps[j])
  IN [k \in DOMAIN firsts |-> comps[firsts[k]]]

\* ------------------------------------------------------------------ retarget
RECURSIVE Retarget(_, _, _)
Retarget(t, olds, new) ==
  IF t.k = "ptr" THEN (IF t.n \in olds THEN TPtr(new) ELSE t)
  ELSE [t EXCEPT !.xs = [i \in DOMAIN t.xs |-> Retarget(t.xs[i], olds, new)]]

\* --------------------------------------------------- _merge of one group (registry order)
MergeGroup(st, memberIx, e) ==
  LET ms     == st.models
      pos    == SelectSeq([i \in DOMAIN ms |-> i], LAMBDA i : ms[i].ix \in memberIx)
      merged == MergeFieldSets([k \in DOMAIN pos |-> ms[pos[k]].t])
      new    == ToString(st.next)
      keep   == SelectSeq(ms, LAMBDA m : m.ix \notin memberIx)
      all    == Append(keep, [ix |-> new, t |-> merged])
      ret    == [i \in DOMAIN all |-> [ix |-> all[i].ix, t |-> Retarget(all[i].t, memberIx, new)]]
      opt    == [ret EXCEPT ![Len(ret)] = [ix |-> new, t |-> Optimize(ret[Len(ret)].t, e)]]
  IN [next |-> st.next + 1, models |-> opt]
RECURSIVE MergeGroups(_, _, _)
MergeGroups(st, gs, e) ==
  IF gs = <<>> THEN st
  ELSE LET r == MergeGroup(st, Head(gs), e) IN IF r = r THEN MergeGroups(r, Tail(gs), e) ELSE r

MergeModels(st, policy, e) ==
  LET ms   == st.models
      gpos == TraversalGroups(ms, policy)
      gix  == [k \in DOMAIN gpos |-> {ms[i].ix : i \in gpos[k]}]
      st2  == MergeGroups(st, gix, e)
  IN [st2 EXCEPT !.models = [i \in DOMAIN st2.models |->
                               [ix |-> st2.models[i].ix, t |-> Optimize(st2.models[i].t, e)]]]
\* the groups merge_models forms (as sets of indices), for ReplacesOK at algorithm level
MergeGroupsOf(st, policy) ==
  LET ms == st.models gpos == TraversalGroups(ms, policy)
  IN {{ms[i].ix : i \in gpos[k]} : k \in DOMAIN gpos}

\* ============================================================ PROPERTY LAYER
GraphOf(ms) == [ix \in {ms[i].ix : i \in DOMAIN ms} |-> (CHOOSE m \in ToSet(ms) : m.ix = ix).t]
IxSet(ms) == {ms[i].ix : i \in DOMAIN ms}
ModelOf(ms, ix) == CHOOSE m \in ToSet(ms) : m.ix = ix

\* connected components (size >= 2) of the similarity relation on the models `ms`
SimIx(ms, policy, a, b) == a # b /\ SimM(policy, ModelOf(ms, a), ModelOf(ms, b))
RECURSIVE Reach(_, _, _, _)
Reach(S, ms, policy, k) ==
  IF k = 0 THEN S
  ELSE Reach(S \cup {b \in IxSet(ms) : \E a \in S : SimIx(ms, policy, a, b)}, ms, policy, k - 1)
Comp(ms, policy, a) == Reach({a}, ms, policy, Len(ms))
Components(ms, policy) == {Comp(ms, policy, a) : a \in {x \in IxSet(ms) : Cardinality(Comp(ms, policy, x)) > 1}}

\* phi: where a model of `before` ended up, according to the reported replacement list
\* replaces = set of [new |-> ix, olds |-> set of ix]
Phi(replaces, a) == IF \E r \in replaces : a \in r.olds THEN (CHOOSE r \in replaces : a \in r.olds).new ELSE a

\* C05.replaces: the reported list is consistent with before/after
ReplacesOK(before, after, replaces) ==
  /\ \A r \in replaces : r.new \in IxSet(after) /\ r.new \notin IxSet(before)
                         /\ r.olds \subseteq IxSet(before) /\ r.olds \cap IxSet(after) = {}
                         /\ Cardinality(r.olds) >= 2
  /\ \A r1, r2 \in replaces : r1 # r2 => r1.olds \cap r2.olds = {} /\ r1.new # r2.new
  /\ IxSet(before) \ IxSet(after) = UNION {r.olds : r \in replaces}
  /\ IxSet(after) \ IxSet(before) = {r.new : r \in replaces}
\* C05.partition: merged exactly along the connected components of the configured similarity
PartitionOK(before, policy, replaces) == {r.olds : r \in replaces} = Components(before, policy)
\* C05.fields-union
FieldsUnionOK(before, after, replaces) ==
  \A r \in replaces : KeysOf(ModelOf(after, r.new)) = UNION {KeysOf(ModelOf(before, a)) : a \in r.olds}
\* collapse unions that became singletons / duplicates after retargeting (semantic normal form, not the code's algorithm)
RECURSIVE Collapse(_)
Collapse(t) ==
  LET xs2 == [i \in DOMAIN t.xs |-> Collapse(t.xs[i])] IN
  IF t.k = "union" THEN LET S == {Canon(xs2[i]) : i \in DOMAIN xs2} IN
                        IF Cardinality(S) = 1 THEN xs2[1] ELSE [t EXCEPT !.xs = xs2]
  ELSE [t EXCEPT !.xs = xs2]
RECURSIVE RetargetAll(_, _)
RetargetAll(t, replaces) ==
  IF t.k = "ptr" THEN TPtr(Phi(replaces, t.n))
  ELSE [t EXCEPT !.xs = [i \in DOMAIN t.xs |-> RetargetAll(t.xs[i], replaces)]]
\* C05.untouched: models outside every group keep their fields and types (modulo retargeted references)
UntouchedOK(before, after, replaces) ==
  \A a \in IxSet(before) \cap IxSet(after) :
     Canon(Collapse(RetargetAll(ModelOf(before, a).t, replaces))) = Canon(Collapse(ModelOf(after, a).t))
\* every reference names a registered model
RECURSIVE PtrsOf(_)
PtrsOf(t) == IF t.k = "ptr" THEN {t.n} ELSE UNION {PtrsOf(t.xs[i]) : i \in DOMAIN t.xs}
RefsRegistered(ms, roots) ==
  /\ \A i \in DOMAIN ms : PtrsOf(ms[i].t) \subseteq IxSet(ms)
  /\ roots \subseteq IxSet(ms)
\* pointer bookkeeping: maintained incoming (parent, field) pairs = the ones derivable from the types
\* inc = [ix -> set of <<parent ix or "", field>>]
DerivedIn(ms, roots, ix) ==
  UNION {{<<ms[i].ix, ms[i].t.ks[j]>> : j \in {j2 \in DOMAIN ms[i].t.ks : ix \in PtrsOf(ms[i].t.xs[j2])}} : i \in DOMAIN ms}
  \cup (IF ix \in roots THEN {<<"", "">>} ELSE {})
PointersOK(ms, roots, inc) == \A ix \in IxSet(ms) : inc[ix] = DerivedIn(ms, roots, ix)

\* ---- models up to renaming: unfold references to a bounded depth
RECURSIVE Unfold(_, _, _)
Unfold(t, G, d) ==
  IF t.k = "ptr" THEN (IF d = 0 \/ t.n \notin DOMAIN G THEN A("cut")
                       ELSE LET o == G[t.n] IN TObj(o.ks, [i \in DOMAIN o.xs |-> Unfold(o.xs[i], G, d - 1)]))
  ELSE [t EXCEPT !.xs = [i \in DOMAIN t.xs |-> Unfold(t.xs[i], G, d)]]
\* the bag of models, each as its canonical unfolding: set of <<canon, multiplicity>>
CanonGraph(ms) ==
  LET G == GraphOf(ms)
      \* full depth decides bisimilarity; beyond 6 models the unfolding is cut at depth 2 (cost), which still compares
      \* every model's own fields and the fields of what it refers to
      d == IF Len(ms) <= 6 THEN Len(ms) + 1 ELSE 2
      c(ix) == Canon(Unfold(TPtr(ix), G, d))
  IN {<<c(ix), Cardinality({jx \in IxSet(ms) : c(jx) = c(ix)})>> : ix \in IxSet(ms)}
=============================================================================

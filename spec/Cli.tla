---------------------------------- MODULE Cli ----------------------------------
(***************************************************************************)
(* The command line process (json_to_models/cli.py: main, Cli.parse_args,   *)
(* setup_models_data, validate, set_args, run) as a state machine.          *)
(*                                                                          *)
(*   Parse -> Load(1) .. Load(n) -> Validate -> SetArgs -> Generate ->      *)
(*   Render -> (Print | Encode -> Open -> Write -> PrintMsg) -> Exit(status) *)
(*                                                                          *)
(* A `plan` fixes the run: the -m / -l arguments (each naming one file with *)
(* a kind), the -o target, and at most one option / generator fault.        *)
(* The arguments are loaded in command-line order (-m and the deprecated    *)
(* -l alike); all files are read before anything is validated; the          *)
(* output file is opened only after the whole text has been rendered.       *)
(*                                                                          *)
(* plan = [args: Seq([flag: "m"|"l", model, kind, ids: Seq(sample id)]),    *)
(*         out: "none" | "absent" | "old" | "unwritable",                   *)
(*         fault: "none" | "argparse" | "merge" | "fwgen" | "mergearg" |    *)
(*                "import" | "generator" | "encode"]                        *)
(* fault "encode": the rendered text holds a character UTF-8 cannot encode  *)
(* (a lone surrogate from a JSON \ud800 escape): printing it fails, and it  *)
(* must be found out BEFORE the -o target is opened (opening truncates).    *)
(* file kinds: "list" "object" "lookup" (ok) | "missing" "malformed"        *)
(*   "badlookup" "scalar" "noglob" (fail while loading) | "nonobject"       *)
(*   "nonstrkey"                                                            *)
(*   (load fine, fail in generate)                                          *)
(***************************************************************************)
EXTENDS Naturals, Sequences, FiniteSets, SequencesExt, TLC

LoadFails == {"missing", "malformed", "badlookup", "scalar", "noglob"}     \* noglob: a pattern that matches no file at all
GenFails  == {"nonobject", "nonstrkey"}
OkKinds   == {"list", "object", "lookup", "glob"}     \* glob: a pattern matching two files; their order is unspecified

\* the order in which the arguments are read: the order of the command line, -m and -l alike (C16: "argument order")
LoadOrder(args) == args
\* C16: samples of one model name = concatenation, in that order, of what each of its files contributes
RECURSIVE Concat(_)
Concat(ss) == IF ss = <<>> THEN <<>> ELSE Head(ss) \o Concat(Tail(ss))
Assemble(args, model) ==
  LET mine == SelectSeq(LoadOrder(args), LAMBDA a : a.model = model) IN Concat([i \in DOMAIN mine |-> mine[i].ids])
Models(args) == {args[i].model : i \in DOMAIN args}
\* the same, as chunks: what each argument of the model contributes and whether the order inside the chunk is specified
Chunks(args, model) ==
  LET mine == SelectSeq(LoadOrder(args), LAMBDA a : a.model = model)
  IN [i \in DOMAIN mine |-> [ids |-> mine[i].ids, ordered |-> mine[i].kind # "glob"]]
\* obs is the concatenation of the chunks, each chunk's part being its ids (in order, or in any order for a glob)
RECURSIVE MatchChunks(_, _)
MatchChunks(obs, chunks) ==
  IF chunks = <<>> THEN obs = <<>>
  ELSE LET c == Head(chunks) n == Len(c.ids) IN
       /\ Len(obs) >= n
       /\ LET part == SubSeq(obs, 1, n) IN
          (IF c.ordered THEN part = c.ids ELSE ToSet(part) = ToSet(c.ids) /\ Cardinality(ToSet(part)) = n)
       /\ MatchChunks(SubSeq(obs, n + 1, Len(obs)), Tail(chunks))

\* model names in the order the code meets them (dict insertion order of models_data)
RECURSIVE DedupM(_, _)
DedupM(s, acc) == IF s = <<>> THEN acc ELSE DedupM(Tail(s), IF Head(s) \in ToSet(acc) THEN acc ELSE Append(acc, Head(s)))
ModelOrder(args) == LET o == LoadOrder(args) IN DedupM([i \in DOMAIN o |-> o[i].model], <<>>)

VARIABLES plan, pc, nxt, loaded, out, printed, status, rendered, gen
vars == <<plan, pc, nxt, loaded, out, printed, status, rendered, gen>>

Out0(p) == IF p.out = "old" THEN "old" ELSE "absent"
InitWith(p) == /\ plan = p /\ pc = "parse" /\ nxt = 1
               /\ loaded = [m \in Models(p.args) |-> <<>>]
               /\ out = Out0(p) /\ printed = "none" /\ status = -1 /\ rendered = FALSE /\ gen = 0

Exit(s) == pc' = "exit" /\ status' = s
Parse == /\ pc = "parse"
         /\ IF plan.fault = "argparse" THEN Exit(2) ELSE pc' = "load" /\ status' = status
         /\ UNCHANGED <<plan, nxt, loaded, out, printed, rendered, gen>>
Load == /\ pc = "load"
        /\ LET order == LoadOrder(plan.args) IN
           IF nxt > Len(order) THEN pc' = "validate" /\ status' = status /\ UNCHANGED <<nxt, loaded>>
           ELSE LET a == order[nxt] IN
                IF a.kind \in LoadFails THEN Exit(1) /\ UNCHANGED <<nxt, loaded>>
                ELSE /\ loaded' = [loaded EXCEPT ![a.model] = @ \o a.ids]
                     /\ nxt' = nxt + 1 /\ pc' = "load" /\ status' = status
        /\ UNCHANGED <<plan, out, printed, rendered, gen>>
Validate == /\ pc = "validate"
            /\ IF plan.fault \in {"merge", "fwgen"} THEN Exit(1) ELSE pc' = "setargs" /\ status' = status
            /\ UNCHANGED <<plan, nxt, loaded, out, printed, rendered, gen>>
SetArgs == /\ pc = "setargs"
           /\ IF plan.fault \in {"mergearg", "import"} THEN Exit(1) ELSE pc' = "generate" /\ status' = status
           /\ UNCHANGED <<plan, nxt, loaded, out, printed, rendered, gen>>
\* one generator.generate(*samples) call per model name, in ModelOrder
Generate == /\ pc = "generate"
            /\ LET mo == ModelOrder(plan.args) IN
               IF gen >= Len(mo) THEN pc' = "render" /\ status' = status /\ gen' = gen
               ELSE IF \E i \in DOMAIN plan.args : plan.args[i].model = mo[gen + 1] /\ plan.args[i].kind \in GenFails
                    THEN Exit(1) /\ gen' = gen
                    ELSE gen' = gen + 1 /\ pc' = "generate" /\ status' = status
            /\ UNCHANGED <<plan, nxt, loaded, out, printed, rendered>>
Render == /\ pc = "render"
          /\ IF plan.fault = "generator" THEN Exit(1) /\ rendered' = FALSE
             ELSE pc' = "emit" /\ status' = status /\ rendered' = TRUE
          /\ UNCHANGED <<plan, nxt, loaded, out, printed, gen>>
PrintCode == /\ pc = "emit" /\ plan.out = "none"
             /\ IF plan.fault = "encode" THEN Exit(1) /\ printed' = printed       \* the stream encodes the whole text first
                ELSE printed' = "code" /\ Exit(0)
             /\ UNCHANGED <<plan, nxt, loaded, out, rendered, gen>>
\* output.encode("utf-8") before the target is touched
Encode == /\ pc = "emit" /\ plan.out # "none"
          /\ IF plan.fault = "encode" THEN Exit(1) ELSE pc' = "open" /\ status' = status
          /\ UNCHANGED <<plan, nxt, loaded, out, printed, rendered, gen>>
Open == /\ pc = "open"
        /\ IF plan.out = "unwritable" THEN Exit(1) /\ out' = out
           ELSE out' = "truncated" /\ pc' = "write" /\ status' = status
        /\ UNCHANGED <<plan, nxt, loaded, printed, rendered, gen>>
Write == /\ pc = "write"
         /\ out' = "new" /\ printed' = "message" /\ Exit(0)
         /\ UNCHANGED <<plan, nxt, loaded, rendered, gen>>
Next == Parse \/ Load \/ Validate \/ SetArgs \/ Generate \/ Render \/ PrintCode \/ Encode \/ Open \/ Write

\* ---------------------------------------------------------------- properties
Faulty(p) == p.fault # "none" \/ p.out = "unwritable" \/ \E i \in DOMAIN p.args : p.args[i].kind \notin OkKinds
\* C17
Atomic   == (pc = "exit" /\ status # 0) => (out = Out0(plan) /\ printed # "code")
Reports  == pc = "exit" => (status # 0 <=> Faulty(plan))
Complete == (pc = "exit" /\ status = 0) => IF plan.out = "none" THEN printed = "code" /\ out = Out0(plan)
                                            ELSE out = "new" /\ printed = "message"
OnlyWriteAfterRender == [][out' # out => rendered]_vars
\* C16
Assembled == pc \in {"validate", "setargs", "generate", "render", "emit", "open", "write"} \/ (pc = "exit" /\ status = 0)
             => \A m \in Models(plan.args) : MatchChunks(loaded[m], Chunks(plan.args, m))
Terminates == <>(pc = "exit")
=============================================================================

------------------------------- MODULE MC_Registry -------------------------------
(***************************************************************************)
(* The registry pipeline as one state machine over a bounded universe of    *)
(* inputs whose nested objects overlap enough for every merge policy to     *)
(* have work to do:                                                         *)
(*   Gen -> Reg -> Pass* (closure loop) -> MergeOne* -> Final -> done       *)
(* Graph-level invariants at `done` (C01 C02 C05 C07 C08 on the MODEL):     *)
(*   SoundG  TightG  NormalG  PartitionG  RefsG  OrderFreeG                 *)
(* Every initial state is emitted ("B") and replayed on the real            *)
(* ModelRegistry by the harness.                                            *)
(***************************************************************************)
EXTENDS Registry, Json
CONSTANTS UniverseId, Emit

Acc == [sA |-> {}, sB |-> {}, sInt |-> {"IntString", "FloatString"}, p |-> {}, q |-> {}, x |-> {}, y |-> {}, f |-> {}, u |-> {}, v |-> {}]
E == [reg |-> <<"IntString", "FloatString", "BooleanString">>, repl |-> {<<"IntString", "FloatString">>},
      acc |-> Acc, long |-> {}, dkf |-> {}, ndkr |-> 0, dkrm |-> <<>>]
Policies == [exact |-> <<[kind |-> "exact", num |-> 0, pairs |-> {}]>>,
             p50 |-> <<[kind |-> "percent", num |-> 50, pairs |-> {}]>>,
             n1 |-> <<[kind |-> "number", num |-> 1, pairs |-> {}]>>,
             dflt |-> <<[kind |-> "percent", num |-> 70, pairs |-> {}], [kind |-> "number", num |-> 10, pairs |-> {}]>>]

\* nested objects over keys x, y, f
Opt(key, vals) == {<<>>} \cup {<<<<key, val>>>> : val \in vals}
Inners == {VObj(<<"u">>, <<VInt>>), VObj(<<"u">>, <<VStr("sA")>>), VObj(<<"u", "v">>, <<VInt, VInt>>)}
MkObj(ps) == VObj([i \in DOMAIN ps |-> ps[i][1]], [i \in DOMAIN ps |-> ps[i][2]])
ObjsFull == {MkObj(a \o b \o c) : a \in Opt("x", {VInt, VStr("sA"), VNull, VStr("sInt")}), b \in Opt("y", {VInt, VFloat}),
                                  c \in Opt("f", Inners)} \ {VObj(<<>>, <<>>)}
ObjsSmall == {MkObj(a \o c) : a \in Opt("x", {VInt, VStr("sA")}),
                              c \in Opt("f", {VObj(<<"u">>, <<VInt>>), VObj(<<"u">>, <<VStr("sA")>>)})} \ {VObj(<<>>, <<>>)}
Objs == IF UniverseId = "full1" THEN ObjsFull ELSE ObjsSmall
Shapes(o1, o2) == IF UniverseId = "full1" THEN {VObj(<<"p", "q">>, <<o1, o2>>), VObj(<<"p", "q">>, <<o1, VList(<<o2, o1>>)>>)}
                  ELSE {VObj(<<"p", "q">>, <<o1, o2>>)}
SampleSet == UNION {Shapes(o1, o2) : o1, o2 \in Objs}
MaxS == IF UniverseId \in {"full1", "tiny1"} THEN 1 ELSE 2

VARIABLES samples, pol, pc, meta, st, root, groups, queue, before
vars == <<samples, pol, pc, meta, st, root, groups, queue, before>>

Init == /\ samples \in UNION {[1..n -> SampleSet] : n \in 1..MaxS}
        /\ pol \in DOMAIN Policies
        /\ pc = "gen" /\ meta = TNull /\ st = EmptyReg /\ root = "" /\ groups = <<>> /\ queue = <<>> /\ before = <<>>
        /\ (Emit => PrintT(<<"B", ToJson([samples |-> samples, policy |-> pol])>>))
Gen == /\ pc = "gen" /\ meta' = Generate(samples, E) /\ pc' = "reg"
       /\ UNCHANGED <<samples, pol, st, root, groups, queue, before>>
Reg == /\ pc = "reg"
       /\ LET r == Register(meta, EmptyReg) IN
          /\ st' = r.st /\ root' = r.root /\ before' = r.st.models
          /\ groups' = InitGroups(r.st.models, Policies[pol])
       /\ pc' = "loop" /\ UNCHANGED <<samples, pol, meta, queue>>
Pass == /\ pc = "loop"
        /\ IF Flag(groups) THEN groups' = PassOut(groups) /\ pc' = "loop" /\ queue' = queue
           ELSE /\ queue' = [k \in DOMAIN groups |-> {st.models[i].ix : i \in groups[k]}]
                /\ groups' = groups /\ pc' = "merge"
        /\ UNCHANGED <<samples, pol, meta, st, root, before>>
MergeOne == /\ pc = "merge" /\ queue # <<>>
            /\ st' = MergeGroup(st, Head(queue), E)
            /\ root' = IF root \in Head(queue) THEN ToString(st.next) ELSE root
            /\ queue' = Tail(queue)
            /\ UNCHANGED <<samples, pol, pc, meta, groups, before>>
Final == /\ pc = "merge" /\ queue = <<>>
         /\ st' = [st EXCEPT !.models = [i \in DOMAIN st.models |-> [ix |-> st.models[i].ix, t |-> Optimize(st.models[i].t, E)]]]
         /\ pc' = "done" /\ UNCHANGED <<samples, pol, meta, root, groups, queue, before>>
Next == Gen \/ Reg \/ Pass \/ MergeOne \/ Final
Spec == Init /\ [][Next]_vars /\ WF_vars(Next)

G == GraphOf(st.models)
SoundG == pc = "done" => FirstRejected(samples, TPtr(root), E, G) = 0
TightG == pc = "done" => LooseModels(G, WalkAll(TPtr(root), samples, E, G), E) = {}
NormalG == pc = "done" => NFGraph(G) /\ \A i \in DOMAIN st.models : st.models[i].t.k # "CRASH"
\* merged along the connected components of the configured similarity on the graph before merging
MergedSets == {S \in {IxSet(before) \ IxSet(st.models)} : S # {}}
PartitionG == pc = "done" =>
   LET comps == Components(before, Policies[pol]) IN
   /\ IxSet(before) \ IxSet(st.models) = UNION comps
   /\ Cardinality(IxSet(st.models) \ IxSet(before)) = Cardinality(comps)
RefsG == pc \in {"merge", "done"} => RefsRegistered(st.models, {root})
\* C07 on the model: the reversed sample list gives the same models up to renaming
Pipeline(ss) == LET r == Register(Generate(ss, E), EmptyReg) IN MergeModels(r.st, Policies[pol], E).models
OrderFreeG == pc = "done" => CanonGraph(st.models) = CanonGraph(Pipeline(Reverse(samples)))
\* the step-wise machine computes what the one-shot operator computes
Agrees == pc = "done" => [i \in DOMAIN st.models |-> Canon(st.models[i].t)] = [i \in DOMAIN Pipeline(samples) |-> Canon(Pipeline(samples)[i].t)]
\* the registry graph handed on to the layout stage (models/structure.py): both layouts place every model exactly once
L == INSTANCE Layout
LayMs == [i \in DOMAIN st.models |-> [ix |-> st.models[i].ix, inc |-> DerivedIn(st.models, {root}, st.models[i].ix)]]
LayoutG == pc = "done" =>
   LET n == L!Nested(LayMs) f == L!Flat(LayMs)
   IN /\ ~n.err /\ L!EachOnceNested(LayMs, n) /\ L!EachOnceFlat(LayMs, f) /\ L!RootFirst(LayMs, f)
      /\ (L!Tree(LayMs) => L!PlacedInReferrer(LayMs, n))
Terminates == <>(pc = "done")
=============================================================================

SPECIFICATION Spec
CONSTANTS
  MaxSamples = 2
  Emit = FALSE
  UniverseId = "full"
INVARIANT Sound
INVARIANT TightInv
INVARIANT Total
INVARIANT Normal
INVARIANT Idempotent
INVARIANT OrderFree
INVARIANT DictIffInv
INVARIANT RootIsModel
CHECK_DEADLOCK FALSE

--------------------------------- MODULE NamesBase ---------------------------------
(* pure operators of the naming layer (shared by Names.tla and the trace specifications) *)
EXTENDS Naturals, Sequences, FiniteSets, SequencesExt, TLC
IsSub(a, b) == \E i \in 0..(Len(b) - Len(a)) : SubSeq(b, i + 1, i + Len(a)) = a      \* Python: a in b
\* the words that contain no other word of the set
Minimal(S) == {w \in S : ~\E v \in S : v # w /\ IsSub(v, w)}
=============================================================================

-------------------------------- MODULE MC_Conv --------------------------------
(***************************************************************************)
(* Every field type of <= MaxDepth wrappers (Optional / List / Dict) over   *)
(* the leaves {pseudo x4, str, int, ptr, lit, unknown, union} and every     *)
(* small value inhabiting it:                                               *)
(*   WalkStep - one iteration of the work-list loop of get_string_field_paths  *)
(*   Conv  - _process_string_field_value along the path found               *)
(* PathOK: the loop finds a path exactly for the convertible types, and it  *)
(*         is the leaf path; StackBound: the work list never exceeds one    *)
(*         entry (wrappers have one child; unions abort the loop);          *)
(* ConvOK: the interpreter produces what the property layer expects and     *)
(*         never raises on an inhabitant.                                   *)
(* Every case is emitted ("B") and replayed on the real functions.          *)
(***************************************************************************)
EXTENDS Conv, Json
CONSTANTS MaxDepth, Emit
VARIABLES ty, val, st, out, pc
vars == <<ty, val, st, out, pc>>

PseudoStr == [IntString |-> "sInt", FloatString |-> "sFlt", BooleanString |-> "sBool", IsoDateString |-> "sDate"]
\* the model's parse table (grounded against the real parsers by the harness on every run)
MParse == [IntString |-> [sInt |-> "sInt"], FloatString |-> [sInt |-> "sInt", sFlt |-> "sFlt"],
           BooleanString |-> [sBool |-> "sBool"], IsoDateString |-> [sDate |-> "sDate"]]
LeafTypes == {TPseudo(p) : p \in DOMAIN PseudoStr} \cup {TStr, TInt, TPtr("1"), TLit({"sA"}), TUnknown,
              N("union", "", {}, <<TInt, TPseudo("IntString")>>, <<>>)}
RECURSIVE TypesD(_)
TypesD(d) == IF d = 0 THEN LeafTypes
             ELSE LET sub == TypesD(d - 1) IN
                  sub \cup {TOpt(x) : x \in {y \in sub : y.k \notin {"opt", "unknown"}}} \cup {TList(x) : x \in sub} \cup {TDict(x) : x \in sub}
\* small inhabitants
RECURSIVE Vals(_)
Vals(t) ==
  CASE t.k = "pseudo" -> {VStr(PseudoStr[t.n])} \cup (IF t.n = "FloatString" THEN {VStr("sInt")} ELSE {})
    [] t.k = "str" -> {VStr("sA"), VStr("sInt")}
    [] t.k = "int" -> {VInt}
    [] t.k = "ptr" -> {VObj(<<"sA">>, <<VInt>>)}
    [] t.k = "lit" -> {VStr("sA")}
    [] t.k = "unknown" -> {VNull}
    [] t.k = "union" -> {VInt, VStr("sInt")}
    [] t.k = "opt" -> {VNull} \cup Vals(t.xs[1])
    [] t.k = "list" -> LET s == Vals(t.xs[1]) a == CHOOSE x \in s : TRUE
                       IN {VList(<<>>)} \cup {VList(<<x>>) : x \in s} \cup {VList(<<a, x>>) : x \in s}
    [] t.k = "dict" -> LET s == Vals(t.xs[1]) a == CHOOSE x \in s : TRUE
                       IN {VObj(<<>>, <<>>)} \cup {VObj(<<"sA">>, <<x>>) : x \in s} \cup {VObj(<<"sA", "sB">>, <<x, a>>) : x \in s}

Init == /\ ty \in TypesD(MaxDepth) /\ val \in Vals(ty)
        /\ st = PInit(ty) /\ out = VNull /\ pc = "walk"
WalkStep == /\ pc = "walk" /\ ~PDone(st) /\ st' = PStep(st) /\ UNCHANGED <<ty, val, out, pc>>
EndWalk == /\ pc = "walk" /\ PDone(st) /\ pc' = "conv" /\ UNCHANGED <<ty, val, st, out>>
Conv == /\ pc = "conv"
        /\ out' = (IF PResult(st).has THEN Process(FullPath(PResult(st)), val, ty, FALSE, MParse) ELSE val)
        /\ pc' = "done" /\ UNCHANGED <<ty, val, st>>
        /\ (Emit => PrintT(<<"B", ToJson([t |-> ty, v |-> val, has |-> PResult(st).has, path |-> PResult(st).path, out |-> out'])>>))
Next == WalkStep \/ EndWalk \/ Conv
Spec == Init /\ [][Next]_vars /\ WF_vars(Next)

StackBound == Len(st.tokens) <= 1
PathOK == pc # "walk" => PResult(st) = PathSpec(ty)
ConvOK == pc = "done" => out = WantConv(val, ty, MParse) /\ ~HasCrash(out)
\* the recursive form used by the trace spec is the same function as the stepwise loop
RunAgrees == pc # "walk" => Paths(ty) = PResult(st)
Terminates == <>(pc = "done")
=============================================================================

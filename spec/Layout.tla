--------------------------------- MODULE Layout ---------------------------------
(***************************************************************************)
(* ALGORITHM LAYER for json_to_models/models/structure.py and               *)
(* models/utils.py (ListEx.insert_before, PositionsDict.update_position).   *)
(*                                                                          *)
(* Input: the registered models in registry order, each with the set of its *)
(* incoming references  inc[ix] = {<<parent ix or "", field>>}  ("" = the   *)
(* pointer returned to the caller, i.e. a root pointer).                    *)
(*                                                                          *)
(*   ExtractRoot(m)      extract_root: root-level ancestors of m            *)
(*   Nested(ms)          compose_models: forest + path injections           *)
(*   Flat(ms)            compose_models_flat: one list, positions dict      *)
(*                                                                          *)
(* positions keys are sets of strings: a model's own key is {ix}, "root" is *)
(* {"root"}, the joined key "#".join(sorted(parents)) is the set `parents`  *)
(* (so the joined key of a single parent p coincides with p's own key,      *)
(* exactly as the string does in the code).                                 *)
(*                                                                          *)
(* PROPERTY LAYER (C12): EachOnce, RootFirst, PlacedInReferrer.             *)
(***************************************************************************)
EXTENDS Integers, Sequences, FiniteSets, FiniteSetsExt, SequencesExt, TLC

\* ms: sequence of [ix, inc]
Ix(ms) == {ms[i].ix : i \in DOMAIN ms}
M(ms, ix) == CHOOSE m \in ToSet(ms) : m.ix = ix
Parents(ms, ix) == {p[1] : p \in {q \in M(ms, ix).inc : q[1] # ""}}
HasRootPtr(ms, ix) == \E p \in M(ms, ix).inc : p[1] = ""
RootLevel(ms, ix) == Parents(ms, ix) = {}

\* ---- extract_root: climb parent links; collect ancestors that have no non-root incoming pointer
RECURSIVE Up(_, _, _)
Up(ms, S, k) == IF k = 0 THEN S ELSE Up(ms, S \cup UNION {Parents(ms, a) : a \in S}, k - 1)
Ancestors(ms, ix) == Up(ms, Parents(ms, ix), Len(ms))
ExtractRoot(ms, ix) == {a \in Ancestors(ms, ix) : RootLevel(ms, a)}

\* ---- ListEx
\* list.insert(pos, x) with a 0-based pos; Python clamps a position beyond the end
InsAt(s, pos, x) == LET p == IF pos > Len(s) THEN Len(s) ELSE pos IN SubSeq(s, 1, p) \o <<x>> \o SubSeq(s, p + 1, Len(s))
IndexOf(s, x) == IF \E i \in DOMAIN s : s[i] = x THEN Min({i \in DOMAIN s : s[i] = x}) - 1 ELSE -1

\* =========================================================== compose_models (nested)
\* state: [roots: Seq(ix), nested: [ix -> Seq(ix)], inj: [ix -> ix] (partial), rix: Nat, err: BOOLEAN]
NestedStep(ms, st, ix) ==
  LET parents == Parents(ms, ix)
      hasRoot == HasRootPtr(ms, ix)
      roots == ExtractRoot(ms, ix)
  IN IF parents = {} THEN
        (IF ~hasRoot THEN [st EXCEPT !.err = TRUE] ELSE [st EXCEPT !.roots = Append(@, ix)])
     ELSE IF hasRoot \/ (Cardinality(parents) > 1 /\ Cardinality(roots) # 1) THEN
        \* used by different root models (or by several models none of which leads to a root-level model):
        \* before the first of those roots that is already placed, else at the running index
        LET present == {IndexOf(st.roots, r) : r \in roots} \ {-1} IN
        IF present # {} THEN [st EXCEPT !.roots = InsAt(@, Min(present), ix)]
        ELSE [st EXCEPT !.roots = InsAt(@, st.rix, ix), !.rix = @ + 1]
     ELSE IF Cardinality(parents) > 1 /\ Cardinality(roots) = 1 THEN
        LET r == CHOOSE r \in roots : TRUE IN
        [st EXCEPT !.nested[r] = <<ix>> \o @, !.inj = @ @@ (ix :> r)]
     ELSE
        LET p == CHOOSE p \in parents : TRUE IN [st EXCEPT !.nested[p] = Append(@, ix)]
RECURSIVE NestedFold(_, _, _)
NestedFold(ms, st, i) == IF i > Len(ms) THEN st
                         ELSE LET s2 == NestedStep(ms, st, ms[i].ix) IN IF s2 = s2 THEN NestedFold(ms, s2, i + 1) ELSE s2
Nested(ms) == NestedFold(ms, [roots |-> <<>>, nested |-> [ix \in Ix(ms) |-> <<>>], inj |-> <<>>, rix |-> 0, err |-> FALSE], 1)

\* =========================================================== compose_models_flat
\* PositionsDict.update_position(key, value) on pos: [key -> Nat] (keys are sets of strings)
UpdatePosition(pos, key, value) ==
  LET old   == IF key \in DOMAIN pos THEN pos[key] ELSE value
      delta == IF key \in DOMAIN pos THEN value - old ELSE 1
      \* (value - old may be negative in the code; with naturals we keep the shifted value as the code computes it)
      shifted == [k \in DOMAIN pos |-> IF k # key /\ pos[k] >= old THEN pos[k] + delta ELSE pos[k]]
  IN [k \in (DOMAIN pos) \cup {key} |-> IF k = key THEN value ELSE shifted[k]]
\* state: [list: Seq(ix), pos: [key -> Nat], top: set of ix]
FlatStep(ms, st, ix) ==
  LET parents == Parents(ms, ix)
      hasRoot == HasRootPtr(ms, ix)
      roots == ExtractRoot(ms, ix)
      RootK == {"root"}
  IN IF parents = {} THEN
        LET p0 == IF RootK \in DOMAIN st.pos THEN st.pos[RootK] ELSE 0            \* positions["root"] creates the key with 0
            pos1 == IF RootK \in DOMAIN st.pos THEN st.pos ELSE st.pos @@ (RootK :> 0)
        IN [list |-> InsAt(st.list, p0, ix), top |-> st.top \cup {ix},
            pos |-> UpdatePosition(pos1, RootK, pos1[RootK] + 1)]
     ELSE IF hasRoot \/ Cardinality(parents) > 1 THEN
        LET ps == IF parents \cap st.top # {} THEN parents \cup {"root"} ELSE parents
            pp == {st.pos[{k}] : k \in {k2 \in ps : {k2} \in DOMAIN st.pos}}
                  \cup (IF ps \in DOMAIN st.pos THEN {st.pos[ps]} ELSE {})
            p == IF pp # {} THEN Max(pp) ELSE Len(st.list)
            pos1 == UpdatePosition(st.pos, ps, p + 1)
            pos2 == UpdatePosition(pos1, {ix}, p + 1)
        IN [list |-> InsAt(st.list, p, ix), top |-> st.top, pos |-> pos2]
     ELSE
        LET par == CHOOSE q \in parents : TRUE
            p == IF {par} \in DOMAIN st.pos THEN st.pos[{par}] ELSE Len(st.list)
            pos1 == UpdatePosition(st.pos, {par}, p + 1)
            pos2 == UpdatePosition(pos1, {ix}, p + 1)
        IN [list |-> InsAt(st.list, p, ix), top |-> st.top, pos |-> pos2]
RECURSIVE FlatFold(_, _, _)
FlatFold(ms, st, i) == IF i > Len(ms) THEN st
                       ELSE LET s2 == FlatStep(ms, st, ms[i].ix) IN IF s2 = s2 THEN FlatFold(ms, s2, i + 1) ELSE s2
Flat(ms) == FlatFold(ms, [list |-> <<>>, pos |-> <<>>, top |-> {}], 1)

\* =========================================================== PROPERTY LAYER
RECURSIVE ForestSeq(_, _, _)
\* all models of the nested structure, pre-order
ForestSeq(st, xs, fuel) == IF xs = <<>> \/ fuel = 0 THEN <<>>
                           ELSE <<Head(xs)>> \o ForestSeq(st, st.nested[Head(xs)], fuel - 1) \o ForestSeq(st, Tail(xs), fuel - 1)
NestedAll(ms, st) == ForestSeq(st, st.roots, 2 * Len(ms) + 2)
EachOnceNested(ms, st) == LET a == NestedAll(ms, st) IN Len(a) = Len(ms) /\ ToSet(a) = Ix(ms)
EachOnceFlat(ms, st) == Len(st.list) = Len(ms) /\ ToSet(st.list) = Ix(ms)
\* tree-shaped: every non-root-level model is referenced from exactly one model and has no root pointer
Tree(ms) == \A i \in DOMAIN ms : RootLevel(ms, ms[i].ix) \/ (Cardinality(Parents(ms, ms[i].ix)) = 1 /\ ~HasRootPtr(ms, ms[i].ix))
\* every nested model sits directly inside the (single) model that references it
PlacedInReferrer(ms, st) == \A p \in Ix(ms) : \A k \in DOMAIN st.nested[p] : p \in Parents(ms, st.nested[p][k])
\* the flat list starts with a root model (one that carries a root pointer)
RootFirst(ms, st) == st.list # <<>> => HasRootPtr(ms, st.list[1])
=============================================================================

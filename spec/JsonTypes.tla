------------------------------ MODULE JsonTypes ------------------------------
(***************************************************************************)
(* PROPERTY LAYER for the type IR: what a type means (Inhabits), when it is *)
(* in normal form (NF), when it is tight w.r.t. the values routed to it     *)
(* (Tight), and when an object must be a mapping (DictLike).                *)
(* Nothing here transcribes the implementation; a VIOLATION is only ever    *)
(* based on these predicates.                                               *)
(*                                                                          *)
(* Environment record `e` (everything the model may know about strings):    *)
(*   reg   sequence of registered pseudo-type names, registration order     *)
(*   repl  set of <<from, to>>: `to` was registered as replacing `from`     *)
(*   acc   [string id -> set of pseudo-type names whose parser accepts it]  *)
(*   long  set of string ids of length >= 20                                *)
(*   dkf   set of key ids named in dict_keys_fields                         *)
(*   ndkr  number of dict-keys regular expressions                          *)
(*   dkrm  [key id -> set of regex numbers the key matches]                 *)
(* Graph `G`: [model index -> obj type].                                    *)
(***************************************************************************)
EXTENDS J2MBase

AccOf(s, e) == IF s \in DOMAIN e.acc THEN e.acc[s] ELSE {}

\* first registered type whose parser accepts the string, else a literal
DetectStr(s, e) ==
  LET idx == {i \in DOMAIN e.reg : e.reg[i] \in AccOf(s, e)}
  IN IF idx = {} THEN (IF s \in e.long THEN TLitOver ELSE TLit({s}))
     ELSE TPseudo(e.reg[Min(idx)])

IsPlain(v, e) == v.k = "str" /\ DetectStr(v.n, e).k \in {"lit", "litover"}

\* C13: an object is a mapping iff empty, or direct value of a dict-keys field, or all keys match one regex
DictLike(v, via, e) ==
  /\ v.k = "obj"
  /\ \/ v.xs = <<>>
     \/ (via # "" /\ via \in e.dkf)
     \/ \E r \in 1..e.ndkr : \A i \in DOMAIN v.ks :
            (v.ks[i] \in DOMAIN e.dkrm /\ r \in e.dkrm[v.ks[i]])

\* ------------------------------------------------------------------ semantics
\* strict = TRUE: Any (unknown) admits only null -- used for routing, never for soundness
RECURSIVE InhabitsX(_, _, _, _, _)
InhabitsX(v, t, e, G, strict) ==
  CASE t.k = "unknown" -> ~strict \/ v.k = "null"
    [] t.k = "null"  -> v.k = "null"
    [] t.k = "int"   -> v.k = "int"
    [] t.k = "float" -> v.k \in {"int", "float"}
    [] t.k = "bool"  -> v.k = "bool"
    [] t.k \in {"str", "litover"} -> v.k = "str"
    [] t.k = "pseudo" -> v.k = "str" /\ t.n \in AccOf(v.n, e)
    [] t.k = "lit"   -> v.k = "str" /\ v.n \in t.ls
    [] t.k = "opt"   -> v.k = "null" \/ InhabitsX(v, t.xs[1], e, G, strict)
    [] t.k = "list"  -> v.k = "list" /\ \A i \in DOMAIN v.xs : InhabitsX(v.xs[i], t.xs[1], e, G, strict)
    [] t.k = "dict"  -> v.k = "obj" /\ \A i \in DOMAIN v.xs : InhabitsX(v.xs[i], t.xs[1], e, G, strict)
    [] t.k = "union" -> \E m \in Members(t) : InhabitsX(v, m, e, G, strict)
    [] t.k = "ptr"   -> t.n \in DOMAIN G /\ InhabitsX(v, G[t.n], e, G, strict)
    [] t.k = "obj"   ->
         /\ v.k = "obj"
         /\ \A i \in DOMAIN v.ks : HasKey(t, v.ks[i]) /\ InhabitsX(v.xs[i], FieldOf(t, v.ks[i]), e, G, strict)
         /\ \A j \in DOMAIN t.ks : t.xs[j].k = "opt" \/ HasKey(v, t.ks[j])
    [] OTHER -> FALSE
Inhabits(v, t, e, G) == InhabitsX(v, t, e, G, FALSE)

\* first index at which a sample is not accepted (0 = all accepted)
FirstRejected(samples, t, e, G) ==
  LET bad == {i \in DOMAIN samples : ~Inhabits(samples[i], t, e, G)}
  IN IF bad = {} THEN 0 ELSE Min(bad)

\* ---------------------------------------------------------------- normal form
\* exactly the clauses of the C08 statement
RECURSIVE NF(_)
NF(t) ==
  CASE t.k = "union" ->
         LET M == Members(t) IN
         /\ Cardinality(M) >= 2                                   \* not empty, not single
         /\ Cardinality(M) = Len(t.xs)                            \* no duplicates
         /\ Cardinality({Canon(m) : m \in M}) = Cardinality(M)    \* ... also up to order
         /\ \A m \in M : m.k \notin {"union", "opt", "null", "CRASH"} /\ NF(m)   \* flat, null folded
         /\ ~(TInt \in M /\ TFloat \in M)
         /\ (TStr \in M => \A m \in M : m.k \notin {"lit", "litover", "pseudo"})
    [] t.k = "opt" -> t.xs[1].k # "opt" /\ NF(t.xs[1])
    [] t.k \in {"list", "dict"} -> NF(t.xs[1])
    [] t.k = "obj" -> \A i \in DOMAIN t.xs : NF(t.xs[i])
    [] t.k = "CRASH" -> FALSE
    [] OTHER -> TRUE

NFGraph(G) == \A ix \in DOMAIN G : NF(G[ix])

\* ------------------------------------------------------- routing and tightness
StrMember(v, M, e) ==
  LET d == DetectStr(v.n, e) IN
  IF d.k = "pseudo" THEN
       IF d \in M THEN d
       ELSE IF \E q \in M : q.k = "pseudo" /\ q.n \in AccOf(v.n, e)
            THEN CHOOSE q \in M : q.k = "pseudo" /\ q.n \in AccOf(v.n, e)
            ELSE TStr
  ELSE IF \E q \in M : q.k = "lit" THEN CHOOSE q \in M : q.k = "lit"
  ELSE IF TLitOver \in M THEN TLitOver ELSE TStr

\* the member of union M a value is routed to, chosen by the value's kind
RoutesTo(v, m, M, via, e, G) ==
  CASE v.k = "int"   -> IF TInt \in M THEN m = TInt ELSE m = TFloat
    [] v.k = "float" -> m = TFloat
    [] v.k = "bool"  -> m = TBool
    [] v.k = "null"  -> m = TNull
    [] v.k = "str"   -> m = StrMember(v, M, e)
    [] v.k = "list"  -> m.k = "list"
    [] v.k = "obj"   -> IF DictLike(v, via, e) THEN m.k = "dict"
                        ELSE LET C == {q \in M : q.k \in {"obj", "ptr"}}
                                 S == {q \in C : InhabitsX(v, q, e, G, TRUE)}     \* strict candidates first
                             IN /\ m \in C
                                /\ (Cardinality(C) > 1 =>
                                      IF S # {} THEN m \in S ELSE Inhabits(v, m, e, G))
    [] OTHER -> FALSE

\* Tightness of one type position w.r.t. the sequence `obs` of values that reached it.
\* A ptr is a leaf here: the model behind it is judged once, on its whole bag (TightGraph).
RECURSIVE TightT(_, _, _, _, _)
TightT(t, obs, via, e, G) ==
  CASE t.k = "opt" -> /\ \E i \in DOMAIN obs : obs[i].k \in {"null", "missing"}
                      /\ TightT(t.xs[1], Sel(obs, LAMBDA v : v.k \notin {"null", "missing"}), via, e, G)
    [] t.k = "union" -> \A m \in Members(t) :
                           LET w == Sel(obs, LAMBDA v : RoutesTo(v, m, Members(t), via, e, G))
                           IN w # <<>> /\ TightT(m, w, via, e, G)
    [] t.k = "null"  -> \A i \in DOMAIN obs : obs[i].k = "null"
    [] t.k = "unknown" -> FALSE     \* Any is only legal as element type; handled by the container
    [] t.k = "int"   -> \E i \in DOMAIN obs : obs[i].k = "int"
    [] t.k = "float" -> \E i \in DOMAIN obs : obs[i].k = "float"
    [] t.k = "bool"  -> \E i \in DOMAIN obs : obs[i].k = "bool"
    [] t.k \in {"str", "litover"} -> \E i \in DOMAIN obs : obs[i].k = "str"
    [] t.k = "pseudo" -> \E i \in DOMAIN obs : obs[i].k = "str" /\ t.n \in AccOf(obs[i].n, e)
    [] t.k = "lit"   -> t.ls \subseteq {obs[i].n : i \in {j \in DOMAIN obs : IsPlain(obs[j], e)}}
    [] t.k \in {"list", "dict"} ->
         LET w  == Sel(obs, LAMBDA v : v.k = (IF t.k = "list" THEN "list" ELSE "obj"))
             el == Elems(w)
         IN /\ w # <<>>
            /\ IF t.xs[1].k = "unknown" THEN \A i \in DOMAIN el : el[i].k = "null"
               ELSE TightT(t.xs[1], el, "", e, G)
    [] t.k = "ptr" -> \E i \in DOMAIN obs : obs[i].k = "obj"
    [] t.k = "obj" ->
         LET w == Sel(obs, LAMBDA v : v.k = "obj") IN
         /\ w # <<>>
         /\ \A j \in DOMAIN t.ks : TightT(t.xs[j], FieldObs(w, t.ks[j]), t.ks[j], e, G)
    [] OTHER -> FALSE

\* first field of object type o that is not tight w.r.t. bag (0 = tight)
LooseField(o, bag, e, G) ==
  LET bad == {j \in DOMAIN o.ks : ~TightT(o.xs[j], FieldObs(bag, o.ks[j]), o.ks[j], e, G)}
  IN IF bad = {} THEN 0 ELSE Min(bad)

\* ------------------------------------------------------------------- walking
\* All <<type position, value, via>> occurrences met when the samples are read along the types.
RECURSIVE Walk(_, _, _, _, _)
Walk(t, v, via, e, G) ==
  <<[t |-> t, v |-> v, via |-> via]>> \o
  (CASE t.k = "opt" -> IF v.k \in {"null", "missing"} THEN <<>> ELSE Walk(t.xs[1], v, via, e, G)
     [] t.k = "union" ->
          LET ms == SetToSeq({m \in Members(t) : RoutesTo(v, m, Members(t), via, e, G)})
          IN FlattenSeq([i \in DOMAIN ms |-> Walk(ms[i], v, via, e, G)])
     [] t.k \in {"list", "dict"} ->
          IF v.k = (IF t.k = "list" THEN "list" ELSE "obj")
          THEN FlattenSeq([i \in DOMAIN v.xs |-> Walk(t.xs[1], v.xs[i], "", e, G)])
          ELSE <<>>
     [] t.k = "ptr" ->
          IF v.k = "obj" /\ t.n \in DOMAIN G
          THEN LET o == G[t.n] IN
               FlattenSeq([j \in DOMAIN o.ks |->
                  Walk(o.xs[j], IF HasKey(v, o.ks[j]) THEN FieldOf(v, o.ks[j]) ELSE VMissing, o.ks[j], e, G)])
          ELSE <<>>
     [] t.k = "obj" ->
          IF v.k = "obj"
          THEN FlattenSeq([j \in DOMAIN t.ks |->
                  Walk(t.xs[j], IF HasKey(v, t.ks[j]) THEN FieldOf(v, t.ks[j]) ELSE VMissing, t.ks[j], e, G)])
          ELSE <<>>
     [] OTHER -> <<>>)

\* top-level samples are marked with via = "#top": they are always models (C13)
WalkAll(t, samples, e, G) == FlattenSeq([i \in DOMAIN samples |-> Walk(t, samples[i], "#top", e, G)])

\* the objects routed to model ix
Bag(occ, ix) == LET s == Sel(occ, LAMBDA o : o.t.k = "ptr" /\ o.t.n = ix /\ o.v.k = "obj")
                IN [i \in DOMAIN s |-> s[i].v]

\* models of G that are not tight w.r.t. what the samples route to them
LooseModels(G, occ, e) == {ix \in DOMAIN G : LooseField(G[ix], Bag(occ, ix), e, G) # 0}

\* C13: every object occurrence sits on a dict position iff it is DictLike
DictIff(occ, e, G) ==
  \A i \in DOMAIN occ :
     LET o == occ[i] IN
     (o.v.k = "obj" /\ o.t.k \notin {"opt", "union"} /\ o.via # "#top") =>
        IF DictLike(o.v, o.via, e) THEN o.t.k \in {"dict", "unknown"} ELSE o.t.k \in {"ptr", "obj", "unknown"}

\* an object occurrence that reached a union/opt position must have been routed on (not dropped)
=============================================================================

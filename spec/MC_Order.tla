-------------------------------- MODULE MC_Order --------------------------------
EXTENDS Order
\* registries with a merge group of three models whose field sets differ (so the member order shows in the field order)
F(ks) == TObj(ks, [i \in DOMAIN ks |-> TInt])
Reg(a, b, c) == [next |-> 5, models |-> << [ix |-> "1", t |-> TObj(<<"p", "q", "r">>, <<TPtr("2"), TPtr("3"), TPtr("4")>>)],
                                            [ix |-> "2", t |-> F(a)], [ix |-> "3", t |-> F(b)], [ix |-> "4", t |-> F(c)] >>]
KeySeqs == {<<"x", "y">>, <<"y", "x">>, <<"x", "y", "z">>, <<"x", "z">>, <<"y", "z", "w">>}
MUniverse == {Reg(a, b, c) : a, b, c \in KeySeqs}
MPolicy == <<[kind |-> "number", num |-> 1, pairs |-> {}]>>
MEnv == [reg |-> <<>>, repl |-> {}, acc |-> <<>>, long |-> {}, dkf |-> {}, ndkr |-> 0, dkrm |-> <<>>]
=============================================================================

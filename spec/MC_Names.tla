-------------------------------- MODULE MC_Names --------------------------------
EXTENDS Names, Json
CONSTANT Emit
Chars == {"a", "b"}
MWords == UNION {[1..n -> Chars] : n \in 1..3}
EmitB == (Emit /\ Done) => PrintT(<<"B", ToJson([words |-> SetToSeq(words), result |-> SetToSeq(filtered)])>>)
=============================================================================

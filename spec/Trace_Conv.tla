------------------------------- MODULE Trace_Conv -------------------------------
(***************************************************************************)
(* Trace specification binding Conv.tla to the real functions of            *)
(* json_to_models/models/string_converters.py.  Event                       *)
(*   Conv  t      field type (IR node)                                      *)
(*         v      a value inhabiting it                                     *)
(*         has, path   what get_string_field_paths returned for a model     *)
(*                whose only field has type t ("" path = bare name)         *)
(*         out    the value after _process_string_field_value along that    *)
(*                path with the annotation evaluated from the emitted       *)
(*                typing code (v itself when there is no path)              *)
(*         exc    exception of either call                                  *)
(*         parsed [class -> [string id -> id of the parsed value]]          *)
(* Clauses (C18): the path exists exactly for the convertible types and is  *)
(* the leaf path; the converted value is what the property layer expects.   *)
(* Drift: the real functions differ from the transcriptions in Conv.tla.    *)
(***************************************************************************)
EXTENDS Conv, Json, IOUtils, TLCExt
CONSTANT Claim
Batch  == JsonDeserialize(IOEnv.TRACE_FILE)
Traces == Batch.traces
VARIABLES tid, l, verdict, drift, live
vars == <<tid, l, verdict, drift, live>>
Events == Traces[tid].events
Ev     == Events[l]
Obs(ev) == [has |-> ev.has, path |-> ev.path]
Clauses(ev) ==
  IF Claim # "C18" \/ ev.ev # "Conv" THEN <<>> ELSE
  LET t == Fix(ev.t) v == Fix(ev.v) ok == ev.exc = "" IN
  << <<"C18.path-total", TRUE, ok>>,
     <<"C18.path", ok, ~ok \/ Obs(ev) = PathSpec(t)>>,
     <<"C18.path-converts", ok /\ HasPath(t), ~(ok /\ HasPath(t)) \/ Canon(Fix(ev.out)) = Canon(WantConv(v, t, ev.parsed))>>,
     <<"C18.no-path-untouched", ok /\ ~HasPath(t), ~(ok /\ ~HasPath(t)) \/ Canon(Fix(ev.out)) = Canon(v)>> >>
Drifts(ev) == ev.ev = "Conv" /\ ev.exc = "" /\
              LET t == Fix(ev.t) v == Fix(ev.v) IN
              Obs(ev) # Paths(t) \/ Canon(Fix(ev.out)) # Canon(ConvertField(v, t, ev.parsed))
FirstFailing(cs) == LET bad == {i \in DOMAIN cs : ~cs[i][3]} IN IF bad = {} THEN "ok" ELSE cs[Min(bad)][1]
LiveOf(cs) == {cs[i][1] : i \in {j \in DOMAIN cs : cs[j][2]}}
Init == /\ tid \in DOMAIN Traces /\ l = 1 /\ verdict = "ok" /\ drift = 0 /\ live = {}
Step == /\ verdict = "ok" /\ l # 0 /\ l <= Len(Events)
        /\ LET cs == Clauses(Ev) f == FirstFailing(cs) IN
           /\ verdict' = f /\ live' = live \cup LiveOf(cs)
           /\ drift' = IF drift = 0 /\ Drifts(Ev) THEN l ELSE drift
           /\ l' = IF f = "ok" THEN l + 1 ELSE l
           /\ UNCHANGED tid
Finish == /\ l # 0 /\ (verdict # "ok" \/ l > Len(Events))
          /\ PrintT(<<"VERDICT", Traces[tid].id, verdict, drift, live, l>>)
          /\ l' = 0 /\ UNCHANGED <<tid, verdict, drift, live>>
Next == Step \/ Finish
TraceSpec == Init /\ [][Next]_vars
=============================================================================

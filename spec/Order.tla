---------------------------------- MODULE Order ----------------------------------
(***************************************************************************)
(* C06 as a 2-safety property: two runs of the same merge on the same       *)
(* registry, each iterating its hash-ordered sets in an arbitrary,          *)
(* independently chosen order, must produce the same ORDERED result (field  *)
(* order and union member order are part of the emitted text).              *)
(*                                                                          *)
(* Site modelled: the member order of a merge group in                      *)
(* ModelRegistry.merge_models  ({model, *models} is a set of ModelMeta,     *)
(* which hash by their string index, i.e. by PYTHONHASHSEED).               *)
(*   Sorted = TRUE   members are put in registration order before _merge    *)
(*                   (what the code does)                                   *)
(*   Sorted = FALSE  members are merged in set-iteration order (the variant *)
(*                   TLC refutes; its counterexample is the pair of orders  *)
(*                   the harness forces on the real code)                   *)
(***************************************************************************)
EXTENDS Registry

CONSTANTS Sorted, Universe, Policy, Env
VARIABLES st, groups, permA, permB, resA, resB, pc
vars == <<st, groups, permA, permB, resA, resB, pc>>

\* merge one group with its members taken in the order `ord` (a sequence of indices)
MergeOrd(s, ord, e) ==
  LET ms     == s.models
      member == ToSet(ord)
      types  == [k \in DOMAIN ord |-> (CHOOSE m \in ToSet(ms) : m.ix = ord[k]).t]
      merged == MergeFieldSets(types)
      new    == ToString(s.next)
      keep   == SelectSeq(ms, LAMBDA m : m.ix \notin member)
      all    == Append(keep, [ix |-> new, t |-> merged])
      ret    == [i \in DOMAIN all |-> [ix |-> all[i].ix, t |-> Retarget(all[i].t, member, new)]]
  IN [next |-> s.next + 1, models |-> [ret EXCEPT ![Len(ret)] = [ix |-> new, t |-> Optimize(ret[Len(ret)].t, e)]]]
RegistryOrder(s, S) == LET pos == SelectSeq([i \in DOMAIN s.models |-> i], LAMBDA i : s.models[i].ix \in S)
                       IN [k \in DOMAIN pos |-> s.models[pos[k]].ix]
Perms(S) == {p \in [1..Cardinality(S) -> S] : \A i, j \in DOMAIN p : i # j => p[i] # p[j]}
Effective(s, p) == IF Sorted THEN RegistryOrder(s, ToSet(p)) ELSE p

Init == /\ st \in Universe
        /\ groups = MergeGroupsOf(st, Policy)
        /\ permA = <<>> /\ permB = <<>> /\ resA = <<>> /\ resB = <<>> /\ pc = "choose"
\* both runs pick an iteration order of the (first) group independently
Choose == /\ pc = "choose" /\ groups # {}
          /\ LET g == CHOOSE g \in groups : TRUE IN
             \E pa \in Perms(g), pb \in Perms(g) :
                /\ permA' = pa /\ permB' = pb
                /\ resA' = MergeOrd(st, Effective(st, pa), Env).models
                /\ resB' = MergeOrd(st, Effective(st, pb), Env).models
          /\ pc' = "done" /\ UNCHANGED <<st, groups>>
Next == Choose
Spec == Init /\ [][Next]_vars
\* ordered equality: sequences of fields, sequences of union members -- the text
Deterministic == pc = "done" => resA = resB
\* weaker: the same models as sets (C07-style); holds even unsorted when merge_field_sets is order-insensitive
SameAsSets == pc = "done" => [i \in DOMAIN resA |-> Canon(resA[i].t)] = [i \in DOMAIN resB |-> Canon(resB[i].t)]
=============================================================================

------------------------------ MODULE Trace_Labels ------------------------------
(***************************************************************************)
(* Trace specification for the label pipeline.  Event                       *)
(*   Label  key, field, cls    the real prepare_label(key, True, snake) for *)
(*                             snake = True / False, as character sequences *)
(*          clsname            GenericModelCodeGenerator.convert_class_name *)
(* Clauses (C11): a key that leads with a letter gets valid identifiers.    *)
(* Drift: the real labels are not what Labels!FieldLabel / ClassLabel give. *)
(***************************************************************************)
EXTENDS Labels, Json, IOUtils, TLCExt, FiniteSetsExt
CONSTANT Claim
Batch  == JsonDeserialize(IOEnv.TRACE_FILE)
Traces == Batch.traces
VARIABLES tid, l, verdict, drift, live
vars == <<tid, l, verdict, drift, live>>
Events == Traces[tid].events
Ev     == Events[l]
Clauses(ev) ==
  IF Claim # "C11" \/ ev.ev # "Label" THEN <<>> ELSE
  \* a key without any word character has an empty label: the "empty labels" known finding of C11 (out of domain)
  << <<"C11.label-total", StripNonWord(ev.key) # <<>>, StripNonWord(ev.key) = <<>> \/ ev.exc = "">>,
     <<"C11.ood.empty-label", StripNonWord(ev.key) = <<>>, StripNonWord(ev.key) # <<>> \/ ev.exc = "">>,
     <<"C11.label-valid", ev.exc = "" /\ LeadsWithLetter(ev.key),
       ~(ev.exc = "" /\ LeadsWithLetter(ev.key)) \/ (ValidIdent(ev.field) /\ ValidIdent(ev.cls) /\ ValidIdent(ev.clsname))>> >>
Drifts(ev) == ev.ev = "Label" /\ ev.exc = "" /\ (ev.field # FieldLabel(ev.key) \/ ev.cls # ClassLabel(ev.key) \/ ev.clsname # ClassName(ev.key))
FirstFailing(cs) == LET bad == {i \in DOMAIN cs : ~cs[i][3]} IN IF bad = {} THEN "ok" ELSE cs[Min(bad)][1]
LiveOf(cs) == {cs[i][1] : i \in {j \in DOMAIN cs : cs[j][2]}}
Init == /\ tid \in DOMAIN Traces /\ l = 1 /\ verdict = "ok" /\ drift = 0 /\ live = {}
Step == /\ verdict = "ok" /\ l # 0 /\ l <= Len(Events)
        /\ LET cs == Clauses(Ev) f == FirstFailing(cs) IN
           /\ verdict' = f /\ live' = live \cup LiveOf(cs)
           /\ drift' = IF drift = 0 /\ Drifts(Ev) THEN l ELSE drift
           /\ l' = IF f = "ok" THEN l + 1 ELSE l
           /\ UNCHANGED tid
Finish == /\ l # 0 /\ (verdict # "ok" \/ l > Len(Events))
          /\ PrintT(<<"VERDICT", Traces[tid].id, verdict, drift, live, l>>)
          /\ l' = 0 /\ UNCHANGED <<tid, verdict, drift, live>>
Next == Step \/ Finish
TraceSpec == Init /\ [][Next]_vars
=============================================================================

------------------------------ MODULE MC_StrTypes ------------------------------
(***************************************************************************)
(* The registry as a state machine: starting from the default content any   *)
(* sequence of <= MaxOps operations (register the datetime classes,         *)
(* disable by class name or by actual type name) followed by detections and *)
(* resolutions.  Invariants (C09) over an abstract string corpus whose      *)
(* acceptance table is grounded against the real parsers by the harness:    *)
(*   DetectOK    first registered acceptor, never a removed type            *)
(*   ResolveOK   every subset of registered types resolves soundly          *)
(*   ReplOK      replacement pairs only relate registered types, and only   *)
(*               pairs whose acceptance sets are really included            *)
(* Every reached registry state is emitted ("B") and rebuilt on the code.   *)
(***************************************************************************)
EXTENDS StrTypes, Json
CONSTANTS MaxOps, Emit, Idempotent      \* Idempotent = FALSE: registration appends unconditionally (refuted: see harness)

Acc == [sA |-> {}, sInt |-> {"IntString", "FloatString", "IsoTimeString"},
        sFlt |-> {"FloatString", "IsoTimeString"}, sExp |-> {"FloatString"},
        sBool |-> {"BooleanString"},
        sDate |-> {"IsoDateString", "IsoDatetimeString"},
        sTime |-> {"IsoTimeString"},
        sDT |-> {"IsoDatetimeString"},
        sHuge |-> {"IntString", "FloatString"}]
ASSUME Emit => PrintT(<<"ACC", ToJson(Acc)>>)
Names == AllClasses \cup {ActualName[c] : c \in AllClasses}

VARIABLES reg, ops, dt
vars == <<reg, ops, dt>>
Init == reg = DefaultReg /\ ops = <<>> /\ dt = FALSE
Disable(n) == /\ Len(ops) < MaxOps
              /\ reg' = RegRemoveByName(reg, n) /\ ops' = Append(ops, <<"disable", n>>) /\ UNCHANGED dt
\* register_datetime_classes may be called again (a second --datetime run in one process did so)
Datetime == /\ Len(ops) < MaxOps
            /\ reg' = RegDatetimeW(reg, Idempotent) /\ ops' = Append(ops, <<"datetime", "">>) /\ dt' = TRUE
\* StringSerializableRegistry.remove(cls): one class, by identity
RemoveCls(c) == /\ Len(ops) < MaxOps /\ c \in ToSet(reg.types)
             /\ reg' = RegRemove(reg, c) /\ ops' = Append(ops, <<"remove", c>>) /\ UNCHANGED dt
Next == Datetime \/ (\E n \in Names : Disable(n)) \/ (\E c \in AllClasses : RemoveCls(c))
\* a class that was removed and not registered again afterwards is not registered
RemovedGone == \A i \in DOMAIN ops : (ops[i][1] = "remove" /\ \A j \in (i + 1)..Len(ops) : ops[j][1] # "datetime")
                                        => ops[i][2] \notin ToSet(reg.types)
Spec == Init /\ [][Next]_vars

DetectOK == \A s \in DOMAIN Acc :
   LET d == DetectStr(s, EnvOf(reg, Acc))
       name == IF d.k = "pseudo" THEN d.n ELSE ""
   IN FirstMatch(s, name, reg, Acc) /\ OnlyIfAccepts(s, name, Acc) /\ NeverDisabled(name, reg)
ResolveOK == \A S \in SUBSET ToSet(reg.types) : S # {} => ResolveSound(S, Resolve(S, reg.repl), Acc)
ReplOK == \A p \in reg.repl : /\ p[1] \in ToSet(reg.types) /\ p[2] \in ToSet(reg.types)
                              /\ AcceptSet(p[1], Acc) \subseteq AcceptSet(p[2], Acc)
Unique == Cardinality(ToSet(reg.types)) = Len(reg.types)
EmitB == Emit => PrintT(<<"B", ToJson([ops |-> ops, types |-> reg.types, repl |-> SetToSeq(reg.repl)])>>)
=============================================================================

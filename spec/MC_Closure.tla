------------------------------ MODULE MC_Closure ------------------------------
(***************************************************************************)
(* The group-closure loop of ModelRegistry.merge_models as a state machine, *)
(* for EVERY symmetric similarity relation on NM models:                    *)
(*                                                                          *)
(*   Init:  groups = [{model, *similar} for each model that has a partner]  *)
(*   Pass:  one iteration of `while flag` (PassOut), until no two groups    *)
(*          overlap                                                         *)
(*                                                                          *)
(* Safety   Correct: on exit the groups are exactly the connected           *)
(*          components (size >= 2) of the relation, pairwise disjoint,      *)
(*          without duplicates (C05 'if and only if ... chain of pairs').   *)
(* Liveness Terminates: the loop always exits.                              *)
(* Each relation is emitted as a "B" line and replayed on the real          *)
(* merge_models through a table-driven ModelCmp.                            *)
(***************************************************************************)
EXTENDS Registry, Json

CONSTANTS NM, Emit

Ix == {ToString(i) : i \in 1..NM}
Pairs == {{ToString(i), ToString(j)} : i, j \in 1..NM} \ {{ToString(i)} : i \in 1..NM}
Ms == [i \in 1..NM |-> [ix |-> ToString(i), t |-> TObj(<<>>, <<>>)]]
Policy(sim) == <<[kind |-> "table", num |-> 0, pairs |-> sim]>>

VARIABLES sim, groups, pc, passes
vars == <<sim, groups, pc, passes>>

Init == /\ sim \in SUBSET Pairs
        /\ groups = InitGroups(Ms, Policy(sim))
        /\ pc = "loop" /\ passes = 0
        /\ (Emit => PrintT(<<"B", ToJson([pairs |-> SetToSeq({SetToSeq(p) : p \in sim})])>>))
Pass == /\ pc = "loop"
        /\ IF Flag(groups) THEN groups' = PassOut(groups) /\ pc' = "loop" /\ passes' = passes + 1
           ELSE groups' = groups /\ pc' = "done" /\ passes' = passes
        /\ UNCHANGED sim
Next == Pass
Spec == Init /\ [][Next]_vars /\ WF_vars(Next)

GroupIx == {{Ms[i].ix : i \in groups[k]} : k \in DOMAIN groups}
Correct == pc = "done" =>
             /\ GroupIx = Components(Ms, Policy(sim))
             /\ Cardinality(GroupIx) = Len(groups)
             /\ \A i, j \in DOMAIN groups : i # j => groups[i] \cap groups[j] = {}
\* the traversal that replaced the loop in the code computes the very same list (same groups, same order)
SameAsTraversal == pc = "done" => groups = TraversalGroups(Ms, Policy(sim))
\* groups only ever grow towards the components: every group stays inside one component
Inside == \A k \in DOMAIN groups : \E c \in Components(Ms, Policy(sim)) : {Ms[i].ix : i \in groups[k]} \subseteq c
Bounded == passes <= NM
Terminates == <>(pc = "done")
=============================================================================

--------------------------------- MODULE MC_Opts ---------------------------------
(***************************************************************************)
(* The option space of the command line as a product of small domains; each *)
(* vector is emitted ("B").  The harness spells it as argv AND as the       *)
(* library calls the statement of C16 equates it with (the table Opts).     *)
(* Invariant: the combinations the CLI itself forbids are not generated     *)
(* (string converters only matter for attrs / dataclasses / base).          *)
(***************************************************************************)
EXTENDS Naturals, TLC, Json
CONSTANT Emit
VARIABLES o
Frameworks == {"base", "pydantic", "attrs", "dataclasses", "sqlmodel"}
Init == /\ o \in [fw : Frameworks, layout : {"flat", "nested"},
                  merge : {"default", "exact", "percent_50", "number_2", "percent_90 number_3", "exact number_1"},
                  datetime : BOOLEAN, converters : BOOLEAN, maxlit : {99, 0, 2},
                  nounicode : BOOLEAN, dk : {"none", "dkf", "dkr", "both"}, preamble : BOOLEAN,
                  disable : {"none", "float", "IntString", "int float", "date IsoTimeString"}, meta : BOOLEAN]
        /\ (o.meta => o.fw \in {"attrs", "dataclasses"})
        /\ (Emit => PrintT(<<"B", ToJson(o)>>))
Next == UNCHANGED o
Spec == Init /\ [][Next]_o
MetaOnlyWhereSupported == o.meta => o.fw \in {"attrs", "dataclasses"}
=============================================================================

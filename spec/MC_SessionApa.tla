--------------------------- MODULE MC_SessionApa ---------------------------
(***************************************************************************)
(* Supplementary (not one of the registered checks): Session.tla under      *)
(* Apalache.  Typed wrapper (constants as definitions, annotated variables, *)
(* INSTANCE Session) and an INDUCTIVE invariant for the thread-local design *)
(* (Shared = FALSE).  tools/apalache_session.sh discharges                  *)
(*   1. Init => IndInv                      (--init=Init    --length=0)     *)
(*   2. IndInv /\ [Next]_vars => IndInv'    (--init=IndInit --length=1)     *)
(*   3. IndInv => SoloEq /\ CtxRestored     (--init=IndInit --length=0)     *)
(* so SoloEq and CtxRestored hold after any number of steps of this         *)
(* instance (3 threads, programs of <= 2 jobs incl. a failing one and one   *)
(* with build steps) - the same facts TLC establishes by enumeration        *)
(* (MC_Session t3), here by induction.  Gen(n) bounds only what the         *)
(* transitions never read (the history `sched`, the length of finished      *)
(* jobs' observation lists).                                                *)
(***************************************************************************)
EXTENDS Naturals, Sequences, FiniteSets, Apalache
Threads == {"t1", "t2", "t3"}
Jobs == {"ja", "jb", "jf"}
K == [j \in Jobs |-> IF j = "ja" THEN 2 ELSE 1]
F == [j \in Jobs |-> IF j = "jf" THEN 1 ELSE 99]
B == [j \in Jobs |-> IF j = "jb" THEN 2 ELSE 0]
Shared == FALSE
\* @type: Seq(Str);
P1 == <<"ja", "jf">>
\* @type: Seq(Str);
P2 == <<"jb">>
\* @type: Seq(Str);
P3 == <<"jf", "ja">>
ProgSet == {[t \in Threads |-> IF t = "t1" THEN P1 ELSE IF t = "t2" THEN P2 ELSE P3]}
VARIABLES
  \* @type: Str -> Seq(Str);
  prog,
  \* @type: Str -> Str;
  ctx,
  \* @type: Str -> Str;
  old,
  \* @type: Str -> Int;
  pos,
  \* @type: Str -> Int;
  cur,
  \* @type: Str -> Seq(Str);
  seen,
  \* @type: Str -> Seq({job: Str, seen: Seq(Str), failed: Bool});
  done,
  \* @type: Seq(Str);
  sched,
  \* @type: Str -> Int;
  built,
  \* @type: Str -> Str;
  memo
INSTANCE Session

\* ---- an inductive invariant for the thread-local design (Shared = FALSE): implies SoloEq and CtxRestored for behaviours of ANY length
JobOrNone == Jobs \cup {"none"}
IndInv ==
  /\ prog \in ProgSet
  /\ DOMAIN ctx = Threads /\ DOMAIN old = Threads /\ DOMAIN pos = Threads /\ DOMAIN cur = Threads
  /\ DOMAIN seen = Threads /\ DOMAIN done = Threads /\ DOMAIN built = Threads /\ DOMAIN memo = Threads
  /\ \A t \in Threads :
       /\ ctx[t] \in JobOrNone /\ old[t] \in JobOrNone /\ memo[t] \in JobOrNone
       /\ cur[t] \in 1..(Len(prog[t]) + 1)
       /\ pos[t] \in 0..(IF Active(t) THEN K[Job(t)] + 1 ELSE 0)
       /\ built[t] \in 0..(IF Active(t) THEN B[Job(t)] ELSE 0)
       /\ (pos[t] = 0 => ctx[t] = "none")
       /\ (pos[t] >= 1 => Active(t) /\ ctx[t] = Job(t) /\ old[t] = "none" /\ built[t] = B[Job(t)])
       /\ (~Active(t) => seen[t] = <<>> /\ memo[t] = "none")
       /\ (Active(t) => (\A k \in DOMAIN seen[t] : seen[t][k] = Job(t)) /\ memo[t] \in {"none", Job(t)})
       /\ Len(seen[t]) = built[t] + (IF pos[t] >= 1 THEN pos[t] - 1 ELSE 0)
       /\ Len(done[t]) = cur[t] - 1
       /\ \A i \in DOMAIN done[t] : \A k \in DOMAIN done[t][i].seen : done[t][i].seen[k] = done[t][i].job
IndInit ==
  /\ prog \in ProgSet
  /\ ctx \in [Threads -> JobOrNone] /\ old \in [Threads -> JobOrNone] /\ memo \in [Threads -> JobOrNone]
  /\ pos \in [Threads -> 0..3] /\ cur \in [Threads -> 1..3] /\ built \in [Threads -> 0..2]
  /\ seen = Gen(5) /\ done = Gen(3) /\ sched = Gen(3)
  /\ IndInv
Safety == SoloEq /\ CtxRestored
=============================================================================

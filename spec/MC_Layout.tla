-------------------------------- MODULE MC_Layout --------------------------------
(***************************************************************************)
(* Every model graph on N models in which model "1" is the root (it carries *)
(* the root pointer), every other model is referenced from a non-empty set  *)
(* of models (possibly itself, possibly later ones - merging appends the    *)
(* merged model at the end of the registry) and is reachable from the root. *)
(* Invariants: the layouts place every model exactly once, the flat list    *)
(* starts with the root, and for tree-shaped graphs every nested class sits *)
(* inside its referrer.  Each graph is emitted ("B") and rebuilt from real  *)
(* ModelMeta / ModelPtr objects; compose_models / compose_models_flat must  *)
(* return what Nested / Flat compute.                                       *)
(***************************************************************************)
EXTENDS Layout, Json
CONSTANTS N, Emit, TwoRoots
Names == {ToString(i) : i \in 1..N}
Others(i) == Names \ {}
\* parents[i] for i = 1..N ; model 1 may also be referenced (cycles back to the root)
ParentChoices(i) == IF i = 1 THEN SUBSET (Names \ {"1"}) ELSE (SUBSET Names) \ {{}}
MkModels(par, extraRoot) ==
  [i \in 1..N |-> [ix |-> ToString(i),
                   inc |-> {<<p, "f">> : p \in par[i]} \cup (IF i = 1 \/ ToString(i) \in extraRoot THEN {<<"", "">>} ELSE {})]]
\* reachability from the root along reference edges (parent -> child)
RECURSIVE Down(_, _, _)
Down(ms, S, k) == IF k = 0 THEN S ELSE Down(ms, S \cup {ms[i].ix : i \in {j \in DOMAIN ms : Parents(ms, ms[j].ix) \cap S # {}}}, k - 1)
Reachable(ms) == Down(ms, {ms[i].ix : i \in {j \in DOMAIN ms : HasRootPtr(ms, ms[j].ix)}}, Len(ms)) = Ix(ms)

VARIABLES ms, nested, flat
vars == <<ms, nested, flat>>
Init == /\ \E par \in [1..N -> SUBSET Names] :
             /\ \A i \in 1..N : par[i] \in ParentChoices(i)
             /\ \E extra \in (IF TwoRoots THEN SUBSET (Names \ {"1"}) ELSE {{}}) :
                  /\ Cardinality(extra) <= 1
                  /\ ms = MkModels(par, extra)
        /\ Reachable(ms)
        /\ nested = Nested(ms) /\ flat = Flat(ms)
        /\ (Emit => PrintT(<<"B", ToJson([ms |-> [i \in DOMAIN ms |-> [ix |-> ms[i].ix, inc |-> SetToSeq(ms[i].inc)]]])>>))
Next == UNCHANGED vars
Spec == Init /\ [][Next]_vars

NoError == ~nested.err
OnceFlat == EachOnceFlat(ms, flat)
OnceNested == EachOnceNested(ms, nested)
RootFirstFlat == RootFirst(ms, flat)
Placement == Tree(ms) => PlacedInReferrer(ms, nested)
=============================================================================

------------------------------- MODULE MC_Infer -------------------------------
(***************************************************************************)
(* Bounded instance of the inference state machine                          *)
(*      Feed* (any order, any repetition) -> Optimise -> Reoptimise         *)
(* over every list of <= MaxSamples samples drawn from a universe of value  *)
(* shapes, under several environments (registry contents, dict options).    *)
(* Properties: C01 (Sound), C02 (TightInv), C07 (OrderFree, DupFree),       *)
(* C08 (Normal, Total, Idempotent), C13 (DictIffInv).                       *)
(* Every initial state is printed as a "B" line: the harness replays each   *)
(* on the real MetadataGenerator (loop B) and TLC validates what it did     *)
(* (loop C, Trace_Infer).                                                   *)
(***************************************************************************)
EXTENDS Infer, Json

CONSTANTS MaxSamples, Emit, UniverseId

\* ---- string universe (ids are grounded against the real parsers by the harness)
\* (sC is concretised as the comma-join of sA and sB: literal sets are keyed by a string built from their members)
Acc == [sA |-> {}, sB |-> {}, sC |-> {}, sLong |-> {},
        sInt |-> {"IntString", "FloatString", "IsoTimeString"}, sFlt |-> {"FloatString", "IsoTimeString"}, sBool |-> {"BooleanString"},
        sDate |-> {"IsoDateString", "IsoDatetimeString"},
        a |-> {}, b |-> {}, c |-> {}, d |-> {}]
\* key "c" matches regex 1, key "d" matches nothing, "a"/"b" match nothing
EnvBase == [reg |-> <<"IntString", "FloatString", "BooleanString">>,
            repl |-> {<<"IntString", "FloatString">>},
            acc |-> Acc, long |-> {"sLong"}, dkf |-> {}, ndkr |-> 0,
            dkrm |-> [a |-> {}, b |-> {}, c |-> {}, d |-> {}]]
Envs == [default  |-> EnvBase,
         dates    |-> [EnvBase EXCEPT !.reg = <<"IntString", "FloatString", "BooleanString",
                                                "IsoDateString", "IsoTimeString", "IsoDatetimeString">>],
         nofloat  |-> [EnvBase EXCEPT !.reg = <<"IntString", "BooleanString">>, !.repl = {}],
         dkf      |-> [EnvBase EXCEPT !.dkf = {"a"}],
         dkr      |-> [EnvBase EXCEPT !.ndkr = 1, !.dkrm = [a |-> {}, b |-> {}, c |-> {1}, d |-> {}]],
         dkfdkr   |-> [EnvBase EXCEPT !.dkf = {"a"}, !.ndkr = 1, !.dkrm = [a |-> {}, b |-> {}, c |-> {1}, d |-> {}]],
         \* two overlapping patterns: "c" matches both, "d" only the second (an object {c, d} is a mapping by the second one)
         dkr2     |-> [EnvBase EXCEPT !.ndkr = 2, !.dkrm = [a |-> {}, b |-> {}, c |-> {1, 2}, d |-> {2}]]]

Atoms == {VNull, VInt, VFloat, VBool, VStr("sA"), VStr("sB"), VStr("sLong"),
          VStr("sInt"), VStr("sFlt"), VStr("sBool"), VStr("sDate")}
Objs1 == {VObj(<<>>, <<>>), VObj(<<"c">>, <<VInt>>), VObj(<<"c">>, <<VStr("sA")>>), VObj(<<"c">>, <<VNull>>),
          VObj(<<"d">>, <<VInt>>), VObj(<<"c", "d">>, <<VInt, VNull>>)}
Lists1 == {VList(<<>>), VList(<<VNull>>), VList(<<VInt>>), VList(<<VInt, VStr("sA")>>), VList(<<VStr("sA"), VStr("sB")>>), VList(<<VStr("sC")>>), VList(<<VStr("sInt"), VStr("sFlt")>>),
           VList(<<VList(<<>>)>>), VList(<<VObj(<<"c">>, <<VInt>>)>>),
           VList(<<VObj(<<"c">>, <<VInt>>), VObj(<<"d">>, <<VStr("sB")>>)>>), VList(<<VInt, VNull>>)}
ValsSmall == Atoms \cup {VObj(<<>>, <<>>), VObj(<<"c">>, <<VInt>>), VList(<<>>), VList(<<VNull>>), VList(<<VInt>>)}
ValsFull  == Atoms \cup Objs1 \cup Lists1

Vals == IF UniverseId = "small" THEN ValsSmall ELSE ValsFull
\* one-field samples {a: v}, the empty sample, and (two-field universe) {a: v, b: w} for a few w
Samples1 == {VObj(<<"a">>, <<v>>) : v \in Vals} \cup {VObj(<<>>, <<>>)}
Samples2 == {VObj(<<"a", "b">>, <<v, w>>) : v \in ValsSmall, w \in {VInt, VNull, VObj(<<"c">>, <<VInt>>)}}
            \cup {VObj(<<"b">>, <<w>>) : w \in {VInt, VObj(<<"c">>, <<VStr("sA")>>)}}
SampleSet == IF UniverseId = "two" THEN Samples1 \cup Samples2 ELSE Samples1
EnvIds == IF UniverseId = "small" THEN {"default", "dates", "dkfdkr"} ELSE DOMAIN Envs

ASSUME Emit => PrintT(<<"ACC", ToJson(Acc)>>)

VARIABLES samples, envId, fed, dup, acc, first, pc, result, prev
vars == <<samples, envId, fed, dup, acc, first, pc, result, prev>>
E == Envs[envId]

Init == /\ samples \in UNION {[1..n -> SampleSet] : n \in 1..MaxSamples}
        /\ envId \in EnvIds
        /\ fed = {} /\ dup = FALSE /\ acc = TObj(<<>>, <<>>) /\ first = TRUE
        /\ pc = "feed" /\ result = TNull /\ prev = TNull
        /\ (Emit => PrintT(<<"B", ToJson([samples |-> samples, env |-> envId])>>))

\* one `for model in field_sets` iteration with an arbitrary not-yet-fed sample (C07: any order)
Feed(i) == /\ pc = "feed" /\ i \in DOMAIN samples \ fed
           /\ acc' = MergeStep(acc, Convert(samples[i], E), first) /\ first' = FALSE
           /\ fed' = fed \cup {i}
           /\ UNCHANGED <<samples, envId, dup, pc, result, prev>>
\* ... or with one already fed (C07: repetition), at most once per behaviour
FeedAgain(i) == /\ pc = "feed" /\ i \in fed /\ ~dup
                /\ acc' = MergeStep(acc, Convert(samples[i], E), first) /\ dup' = TRUE
                /\ UNCHANGED <<samples, envId, fed, first, pc, result, prev>>
Optimise == /\ pc = "feed" /\ fed = DOMAIN samples
            /\ result' = Optimize(acc, E) /\ pc' = "optimized"
            /\ UNCHANGED <<samples, envId, fed, dup, acc, first, prev>>
Reoptimise == /\ pc = "optimized"
              /\ prev' = result /\ result' = Optimize(result, E) /\ pc' = "done"
              /\ UNCHANGED <<samples, envId, fed, dup, acc, first>>
Next == (\E i \in DOMAIN samples : Feed(i) \/ FeedAgain(i)) \/ Optimise \/ Reoptimise
Spec == Init /\ [][Next]_vars

Finished == pc \in {"optimized", "done"}
\* C01
Sound      == Finished => FirstRejected(samples, result, E, <<>>) = 0
\* C02
TightInv   == Finished => LooseField(result, samples, E, <<>>) = 0
\* C08
Total      == Finished => result.k # "CRASH"
Normal     == Finished => NF(result)
Idempotent == pc = "done" => Canon(result) = Canon(prev)
\* C07: any feeding order, with or without one repetition, gives what the in-order fold gives
OrderFree  == Finished => Canon(result) = Canon(Generate(samples, E))
\* C13
DictIffInv == Finished => DictIff(WalkAll(result, samples, E, <<>>), E, <<>>)
RootIsModel == Finished => result.k = "obj"
=============================================================================

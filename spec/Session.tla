--------------------------------- MODULE Session ---------------------------------
(***************************************************************************)
(* Process-level state around code generation                               *)
(* (dynamic_typing/models_meta.py AbsoluteModelRef.Context, models/base.py  *)
(* generate_code / GenericModelCodeGenerator.__init__).                     *)
(*                                                                          *)
(*  ctx[t]    the reference-path context a thread sees: "none" or a job id  *)
(*            (threading.local: every thread has its own; a thread that did *)
(*            not import the library starts with the attribute unset, which *)
(*            reads as "none")                                              *)
(*  old[t]    what the context manager saved on entry                       *)
(*  pos[t]    progress of the thread's current render: 0 = not started,     *)
(*            1 = entered, 1+i = i fields rendered, K+2 = exited            *)
(*  seen[t]   the context value each rendered field observed                *)
(*                                                                          *)
(* A job j renders K[j] fields between CtxEnter and CtxExit; a job may be   *)
(* planned to fail after F[j] reads (99 = no failure): the exception leaves *)
(* through the context manager, which restores the context.                 *)
(* Shared = TRUE models the (wrong) design with one context for all         *)
(* threads; it is used to obtain the interleavings that would break SoloEq. *)
(***************************************************************************)
EXTENDS Naturals, Sequences, FiniteSets, TLC

CONSTANTS Threads, Jobs, K, F, ProgSet, Shared
\* prog[t] = sequence of jobs thread t runs one after the other (chosen from ProgSet at Init)

VARIABLES prog, ctx, old, pos, cur, seen, done, sched
vars == <<prog, ctx, old, pos, cur, seen, done, sched>>
Prog == prog

Slot(t) == IF Shared THEN "all" ELSE t
Init == /\ prog \in ProgSet
        /\ ctx = [s \in (IF Shared THEN {"all"} ELSE Threads) |-> "none"]
        /\ old = [t \in Threads |-> "none"]
        /\ pos = [t \in Threads |-> 0]
        /\ cur = [t \in Threads |-> 1]
        /\ seen = [t \in Threads |-> <<>>]
        /\ done = [t \in Threads |-> <<>>]
        /\ sched = <<>>

Job(t) == Prog[t][cur[t]]
Active(t) == cur[t] <= Len(Prog[t])
CtxEnter(t) == /\ Active(t) /\ pos[t] = 0
               /\ old' = [old EXCEPT ![t] = ctx[Slot(t)]]
               /\ ctx' = [ctx EXCEPT ![Slot(t)] = Job(t)]
               /\ pos' = [pos EXCEPT ![t] = 1]
               /\ sched' = Append(sched, t)
               /\ UNCHANGED <<prog, cur, seen, done>>
\* F[j] = number of context reads after which job j fails (0: right after entering); NoFail = it does not fail
NoFail == 99
Fails(t) == F[Job(t)] # NoFail /\ pos[t] - 1 = F[Job(t)]
RenderField(t) == /\ Active(t) /\ pos[t] >= 1 /\ pos[t] <= K[Job(t)] /\ ~Fails(t)
                  /\ seen' = [seen EXCEPT ![t] = Append(@, ctx[Slot(t)])]
                  /\ pos' = [pos EXCEPT ![t] = @ + 1]
                  /\ sched' = Append(sched, t)
                  /\ UNCHANGED <<prog, ctx, old, cur, done>>
\* normal exit after the last field, or exceptional exit at the planned failure point: both restore
CtxExit(t) == /\ Active(t) /\ pos[t] >= 1 /\ (pos[t] = K[Job(t)] + 1 \/ Fails(t))
              /\ ctx' = [ctx EXCEPT ![Slot(t)] = old[t]]
              /\ done' = [done EXCEPT ![t] = Append(@, [job |-> Job(t), seen |-> seen[t], failed |-> Fails(t)])]
              /\ seen' = [seen EXCEPT ![t] = <<>>]
              /\ pos' = [pos EXCEPT ![t] = 0]
              /\ cur' = [cur EXCEPT ![t] = @ + 1]
              /\ sched' = Append(sched, t)
              /\ UNCHANGED <<prog, old>>
Next == \E t \in Threads : CtxEnter(t) \/ RenderField(t) \/ CtxExit(t)
Spec == Init /\ [][Next]_vars /\ WF_vars(Next)

AllDone == \A t \in Threads : ~Active(t)
\* C15 / C14: every finished job saw exactly its own context at every field, whatever ran before or meanwhile
SoloEq == \A t \in Threads : \A i \in DOMAIN done[t] :
             \A k \in DOMAIN done[t][i].seen : done[t][i].seen[k] = done[t][i].job
\* C14: between calls no context is left behind
CtxRestored == \A t \in Threads : pos[t] = 0 => ctx[Slot(t)] = (IF Shared /\ \E u \in Threads : pos[u] # 0 THEN ctx[Slot(t)] ELSE "none")
Terminates == <>AllDone
=============================================================================

--------------------------------- MODULE Session ---------------------------------
(***************************************************************************)
(* Process-level state around code generation                               *)
(* (dynamic_typing/models_meta.py AbsoluteModelRef.Context, models/base.py  *)
(* generate_code / GenericModelCodeGenerator.__init__).                     *)
(*                                                                          *)
(*  ctx[t]    the reference-path context a thread sees: "none" or a job id  *)
(*            (threading.local: every thread has its own; a thread that did *)
(*            not import the library starts with the attribute unset, which *)
(*            reads as "none")                                              *)
(*  old[t]    what the context manager saved on entry                       *)
(*  pos[t]    progress of the thread's current render: 0 = not started,     *)
(*            1 = entered, 1+i = i fields rendered, K+2 = exited            *)
(*  seen[t]   the context value each rendered field observed                *)
(*                                                                          *)
(*  built[t]  build steps of the current pipeline done so far               *)
(*  memo[s]   whatever the pipeline objects memoise while building (the     *)
(*            generator, the registry and their helpers are created per     *)
(*            call: every call has its own; "none" = nothing memoised yet)  *)
(*                                                                          *)
(* A job j first takes B[j] build steps (merge_models, every pair           *)
(* comparison, every group merge: each may read and fill what its pipeline  *)
(* memoises), then                                                          *)
(* renders K[j] fields between CtxEnter and CtxExit; a job may be           *)
(* planned to fail after F[j] reads (99 = no failure): the exception leaves *)
(* through the context manager, which restores the context.                 *)
(* Shared = TRUE models the (wrong) design with one context for all         *)
(* threads and one process-wide memo table for all pipelines; it is used to *)
(* obtain the interleavings that would break SoloEq.                        *)
(***************************************************************************)
EXTENDS Naturals, Sequences, FiniteSets, TLC

CONSTANTS Threads, Jobs, K, F, B, ProgSet, Shared
\* prog[t] = sequence of jobs thread t runs one after the other (chosen from ProgSet at Init)

VARIABLES prog, ctx, old, pos, cur, seen, done, sched, built, memo
vars == <<prog, ctx, old, pos, cur, seen, done, sched, built, memo>>
Prog == prog

Slot(t) == IF Shared THEN "all" ELSE t
Init == /\ prog \in ProgSet
        /\ ctx = [s \in (IF Shared THEN {"all"} ELSE Threads) |-> "none"]
        /\ old = [t \in Threads |-> "none"]
        /\ pos = [t \in Threads |-> 0]
        /\ cur = [t \in Threads |-> 1]
        /\ seen = [t \in Threads |-> <<>>]
        /\ done = [t \in Threads |-> <<>>]
        /\ sched = <<>>
        /\ built = [t \in Threads |-> 0]
        /\ memo = [s \in (IF Shared THEN {"all"} ELSE Threads) |-> "none"]

Job(t) == Prog[t][cur[t]]
Active(t) == cur[t] <= Len(Prog[t])
\* one build step: it sees what its pipeline memoised so far (its own job's data, or nothing yet) and memoises
BuildStep(t) == /\ Active(t) /\ pos[t] = 0 /\ built[t] < B[Job(t)]
                /\ LET obs == IF memo[Slot(t)] = "none" THEN Job(t) ELSE memo[Slot(t)] IN
                   /\ memo' = [memo EXCEPT ![Slot(t)] = obs]
                   /\ seen' = [seen EXCEPT ![t] = Append(@, obs)]
                /\ built' = [built EXCEPT ![t] = @ + 1]
                /\ sched' = Append(sched, t)
                /\ UNCHANGED <<prog, ctx, old, pos, cur, done>>
CtxEnter(t) == /\ Active(t) /\ pos[t] = 0 /\ built[t] = B[Job(t)]
               /\ old' = [old EXCEPT ![t] = ctx[Slot(t)]]
               /\ ctx' = [ctx EXCEPT ![Slot(t)] = Job(t)]
               /\ pos' = [pos EXCEPT ![t] = 1]
               /\ sched' = Append(sched, t)
               /\ UNCHANGED <<prog, cur, seen, done, built, memo>>
\* F[j] = number of context reads after which job j fails (0: right after entering); NoFail = it does not fail
NoFail == 99
Fails(t) == F[Job(t)] # NoFail /\ pos[t] - 1 = F[Job(t)]
RenderField(t) == /\ Active(t) /\ pos[t] >= 1 /\ pos[t] <= K[Job(t)] /\ ~Fails(t)
                  /\ seen' = [seen EXCEPT ![t] = Append(@, ctx[Slot(t)])]
                  /\ pos' = [pos EXCEPT ![t] = @ + 1]
                  /\ sched' = Append(sched, t)
                  /\ UNCHANGED <<prog, ctx, old, cur, done, built, memo>>
\* normal exit after the last field, or exceptional exit at the planned failure point: both restore
CtxExit(t) == /\ Active(t) /\ pos[t] >= 1 /\ (pos[t] = K[Job(t)] + 1 \/ Fails(t))
              /\ ctx' = [ctx EXCEPT ![Slot(t)] = old[t]]
              /\ done' = [done EXCEPT ![t] = Append(@, [job |-> Job(t), seen |-> seen[t], failed |-> Fails(t)])]
              /\ seen' = [seen EXCEPT ![t] = <<>>]
              /\ pos' = [pos EXCEPT ![t] = 0]
              /\ cur' = [cur EXCEPT ![t] = @ + 1]
              /\ sched' = Append(sched, t)
              /\ built' = [built EXCEPT ![t] = 0]
              /\ memo' = [memo EXCEPT ![Slot(t)] = "none"]         \* the pipeline's objects go away with the call
              /\ UNCHANGED <<prog, old>>
Next == \E t \in Threads : BuildStep(t) \/ CtxEnter(t) \/ RenderField(t) \/ CtxExit(t)
Spec == Init /\ [][Next]_vars /\ WF_vars(Next)

AllDone == \A t \in Threads : ~Active(t)
\* C15 / C14: every finished job saw exactly its own context at every field, whatever ran before or meanwhile
SoloEq == \A t \in Threads : \A i \in DOMAIN done[t] :
             \A k \in DOMAIN done[t][i].seen : done[t][i].seen[k] = done[t][i].job
\* C14: between calls no context is left behind
CtxRestored == \A t \in Threads : pos[t] = 0 => ctx[Slot(t)] = (IF Shared /\ \E u \in Threads : pos[u] # 0 THEN ctx[Slot(t)] ELSE "none")
Terminates == <>AllDone
=============================================================================

------------------------------ MODULE Trace_Infer ------------------------------
(***************************************************************************)
(* Trace specification for the metadata stage.  Events (DESIGN.md 4.3):     *)
(*                                                                          *)
(*  Generate  samples, env -> result | exception                            *)
(*            MetadataGenerator.generate on the real code                   *)
(*  Optimize  arg, env -> result | exception      (second = re-run on the   *)
(*            previous result)   MetadataGenerator.optimize_type            *)
(*  MergeStep acc, new, first -> result     one merge_field_sets iteration  *)
(*  Detect    value, env, convertDict -> result     _detect_type            *)
(*                                                                          *)
(* Property clauses (verdict) come from JsonTypes; the algorithm layer      *)
(* (Infer) only yields drift.  Claim selects whose clauses are evaluated.   *)
(***************************************************************************)
EXTENDS Infer, TraceBase

CONSTANT Claim
VARIABLES tid, l, st, verdict, drift, live
vars == <<tid, l, st, verdict, drift, live>>

Events == Traces[tid].events
Ev     == Events[l]

NoSt == [has |-> FALSE, canon |-> Canon(TNull)]

GenerateClauses(ev, s) ==
  LET e  == FixEnv(ev.env)
      S  == FixSeq(ev.samples)
      ok == ev.exc = ""
      r  == IF ok THEN Fix(ev.result) ELSE TCrash
      occ == IF ok THEN WalkAll(r, S, e, <<>>) ELSE <<>>
      nested == \E i \in DOMAIN occ : occ[i].v.k = "obj" /\ occ[i].via # "#top"
  IN CASE Claim = "C01" -> << <<"C01.total", TRUE, ok>>,
                              <<"C01.sound.meta", ok, ~ok \/ FirstRejected(S, r, e, <<>>) = 0>> >>
       [] Claim = "C02" -> << <<"C02.tight.meta", ok, ~ok \/ LooseField(r, S, e, <<>>) = 0>> >>
       [] Claim = "C07" -> << <<"C07.total", TRUE, ok>>,
                              <<"C07.perm", s.has /\ ok, ~(s.has /\ ok) \/ Canon(r) = s.canon>> >>
       [] Claim = "C08" -> << <<"C08.total", TRUE, ok>>,
                              <<"C08.nf.meta", ok, ~ok \/ NF(r)>> >>
       [] Claim = "C13" -> << <<"C13.total", TRUE, ok>>,
                              <<"C13.top-level", ok, ~ok \/ r.k = "obj">>,
                              <<"C13.iff", ok /\ nested, ~ok \/ DictIff(occ, e, <<>>)>>,
                              <<"C13.value-type", ok /\ nested, ~ok \/ FirstRejected(S, r, e, <<>>) = 0>> >>
       [] OTHER -> <<>>
GenerateDrift(ev) ==
  ev.exc = "" /\ Canon(Fix(ev.result)) # Canon(Generate(FixSeq(ev.samples), FixEnv(ev.env)))

OptimizeClauses(ev, s) ==
  LET ok == ev.exc = ""
      r  == IF ok THEN Fix(ev.result) ELSE TCrash
  IN CASE Claim = "C08" -> << <<"C08.total", TRUE, ok>>,
                              <<"C08.nf", ok /\ ~ev.second, ~ok \/ ev.second \/ NF(r)>>,
                              <<"C08.idem", ok /\ ev.second /\ s.has, ~(ok /\ ev.second /\ s.has) \/ Canon(r) = s.canon>> >>
       [] OTHER -> <<>>
OptimizeDrift(ev) ==
  ev.exc = "" /\ Canon(Fix(ev.result)) # Canon(Optimize(Fix(ev.arg), FixEnv(ev.env)))

MergeStepDrift(ev) ==
  ev.exc = "" /\ Canon(Fix(ev.result)) # Canon(MergeStep(Fix(ev.acc), Fix(ev.new), ev.first))
DetectDrift(ev) ==
  ev.exc = "" /\ Canon(Fix(ev.result)) # Canon(Detect(Fix(ev.value), ev.convertDict, FixEnv(ev.env)))

Clauses(ev, s) ==
  CASE ev.ev = "Generate" -> GenerateClauses(ev, s)
    [] ev.ev = "Optimize" -> OptimizeClauses(ev, s)
    [] OTHER -> <<>>
Drifts(ev) ==
  CASE ev.ev = "Generate"  -> GenerateDrift(ev)
    [] ev.ev = "Optimize"  -> OptimizeDrift(ev)
    [] ev.ev = "MergeStep" -> MergeStepDrift(ev)
    [] ev.ev = "Detect"    -> DetectDrift(ev)
    [] OTHER -> FALSE
NextSt(ev, s) ==
  IF ev.ev \in {"Generate", "Optimize"} /\ ev.exc = "" /\ (ev.ev = "Optimize" \/ ~s.has)
  THEN [has |-> TRUE, canon |-> Canon(Fix(ev.result))] ELSE s

Init == /\ tid \in DOMAIN Traces /\ l = 1 /\ st = NoSt
        /\ verdict = "ok" /\ drift = 0 /\ live = {}

Step == /\ verdict = "ok" /\ l # 0 /\ l <= Len(Events)
        /\ LET cs == Clauses(Ev, st)
               f  == FirstFailing(cs) IN
           /\ verdict' = IF f = "ok" THEN "ok" ELSE f
           /\ live' = live \cup LiveOf(cs)
           /\ drift' = IF drift = 0 /\ Drifts(Ev) THEN l ELSE drift
           /\ st' = NextSt(Ev, st)
           /\ l' = IF f = "ok" THEN l + 1 ELSE l
           /\ UNCHANGED tid
Finish == /\ l # 0 /\ (verdict # "ok" \/ l > Len(Events))
          /\ PrintT(<<"VERDICT", Traces[tid].id, verdict, drift, live, l>>)
          /\ l' = 0 /\ UNCHANGED <<tid, st, verdict, drift, live>>
Next == Step \/ Finish
TraceSpec == Init /\ [][Next]_vars
=============================================================================

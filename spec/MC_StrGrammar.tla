----------------------------- MODULE MC_StrGrammar -----------------------------
(***************************************************************************)
(* The structured string grammar of C09 as a (prefix-tree) state machine:   *)
(* a string is a sequence of <= MaxTok tokens; every reachable state is one *)
(* string of the corpus and is emitted ("B") for the harness, which         *)
(* instantiates tokens to text and asks the real parsers.                   *)
(* Tokens: signs, digit runs (1, 2, 22 and 320 digits), underscore, dot,    *)
(* exponent markers, whitespace, non-ASCII digits, nan/inf/Infinity, case   *)
(* variants of true/false, ISO date / time / fraction / offset fragments.   *)
(***************************************************************************)
EXTENDS Naturals, Sequences, TLC, Json
CONSTANTS MaxTok, Emit
Tokens == {"plus", "minus", "d", "dd", "zero", "dlong", "dhuge", "us", "dot", "e", "E", "ws", "nl", "arab",
           "nan", "inf", "Infinity", "true", "True", "TRUE", "false", "date", "T", "time", "frac", "tz", "Z",
           "x", "colon", "slash"}
VARIABLE s
Init == s = <<>>
Next == \E t \in Tokens : Len(s) < MaxTok /\ s' = Append(s, t)
Spec == Init /\ [][Next]_s
EmitB == (Emit /\ s # <<>>) => PrintT(<<"B", ToJson(s)>>)
Bounded == Len(s) <= MaxTok
=============================================================================

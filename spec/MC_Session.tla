------------------------------- MODULE MC_Session -------------------------------
(***************************************************************************)
(* Bounded instances of Session:                                            *)
(*  "threads"   two / three threads, one job each: every interleaving       *)
(*  "history"   one thread, up to four jobs in a row, some failing midway   *)
(* With Shared = FALSE both SoloEq and CtxRestored are invariants.  With    *)
(* Shared = TRUE (one context for all threads) TLC reports the shortest     *)
(* interleaving that breaks SoloEq.  Complete schedules are emitted ("B").  *)
(***************************************************************************)
EXTENDS Session, Json
CONSTANTS Emit, Mode,
          Kj1, Kj2, Kj3, Kf1, Kf2, Kr1, Kr2, Kc1, Kc2, Kc3, Km1, Km2, Kn1, Krn1, Kk1, Kk2, Ff1, Ff2,   \* measured on the real jobs by the harness (context reads per render)
          Bm1, Bm2                                                               \* build steps of the two pipelines observed step by step
MJobs == {"j1", "j2", "j3", "f1", "f2", "r1", "r2", "c1", "c2", "c3", "m1", "m2", "n1", "rn1", "k1", "k2"}
MK == [j1 |-> Kj1, j2 |-> Kj2, j3 |-> Kj3, f1 |-> Kf1, f2 |-> Kf2, r1 |-> Kr1, r2 |-> Kr2, c1 |-> Kc1, c2 |-> Kc2, c3 |-> Kc3,
       m1 |-> Km1, m2 |-> Km2, n1 |-> Kn1, rn1 |-> Krn1, k1 |-> Kk1, k2 |-> Kk2]
MF == [j1 |-> NoFail, j2 |-> NoFail, j3 |-> NoFail, f1 |-> Ff1, f2 |-> Ff2, r1 |-> NoFail, r2 |-> NoFail,
       c1 |-> NoFail, c2 |-> NoFail, c3 |-> NoFail, m1 |-> NoFail, m2 |-> NoFail, n1 |-> NoFail, rn1 |-> NoFail, k1 |-> NoFail, k2 |-> NoFail]   \* f1 / f2 fail after that many reads
\* (the build phase of the other jobs is not observed step by step: it is part of their first step)
MB == [j \in MJobs |-> IF j = "m1" THEN Bm1 ELSE IF j = "m2" THEN Bm2 ELSE 0]
HistJobs == {"j1", "j3", "f1", "f2", "r1", "r2", "c1", "c2", "c3", "n1", "rn1", "k1", "k2"}
MThreads == IF Mode = "t3" THEN {"t1", "t2", "t3"} ELSE IF Mode \in {"t2", "t2b", "t2f"} THEN {"t1", "t2"} ELSE {"t1"}
MProgSet ==
  CASE Mode = "t2" -> {[t1 |-> <<"j1">>, t2 |-> <<"j2">>]}
    [] Mode = "t3" -> {[t1 |-> <<"j1">>, t2 |-> <<"j2">>, t3 |-> <<"j3">>]}
    [] Mode = "t2b" -> {[t1 |-> <<"m1">>, t2 |-> <<"m2">>]}      \* two whole pipelines (build steps interleaved)
    [] Mode = "t2f" -> {[t1 |-> <<"f1", "j1">>, t2 |-> <<"j2">>]}
    [] Mode = "hist3" -> {[t1 |-> s] : s \in UNION {[1..n -> HistJobs] : n \in 1..3}}
    [] OTHER -> {[t1 |-> s] : s \in UNION {[1..n -> HistJobs] : n \in 1..4}}     \* every history of <= 4 calls
EmitB == (Emit /\ AllDone) => PrintT(<<"B", ToJson([sched |-> sched, prog |-> prog])>>)
=============================================================================

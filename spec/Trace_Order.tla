------------------------------- MODULE Trace_Order -------------------------------
(***************************************************************************)
(* Trace specification for C06.  One trace = one input + option set run     *)
(* several times; events                                                    *)
(*   Run     how ("seed" | "order" | "repeat"), key (the PYTHONHASHSEED or  *)
(*           the forced iteration order), status, hash (sha256 of the       *)
(*           output minus the timestamp line of the CLI header)             *)
(* The spec action Run requires every result for one input to be equal      *)
(* (2-safety by self-composition: no reference output is needed).           *)
(***************************************************************************)
EXTENDS TraceBase, NamesBase
CONSTANT Claim
VARIABLES tid, l, st, verdict, drift, live
vars == <<tid, l, st, verdict, drift, live>>
Events == Traces[tid].events
Ev     == Events[l]
\* Words: utils.distinct_words on a set of words (each a sequence of characters): the result must be the minimal words,
\* whatever order the sets were iterated in
WordsClauses(ev) == << <<"C06.words", TRUE, ToSet(ev.result) = Minimal(ToSet(ev.words))>> >>
Clauses(ev, s) ==
  IF Claim = "C06" /\ ev.ev = "Words" THEN WordsClauses(ev) ELSE
  IF Claim # "C06" \/ ev.ev # "Run" THEN <<>> ELSE
  << <<"C06.total", TRUE, ev.status = 0>>,
     <<IF ev.how = "seed" THEN "C06.seed" ELSE IF ev.how = "order" THEN "C06.order" ELSE "C06.repeat",
       s.has /\ ev.status = 0, ~(s.has /\ ev.status = 0) \/ ev.hash = s.first>> >>
Init == /\ tid \in DOMAIN Traces /\ l = 1 /\ st = [has |-> FALSE, first |-> ""]
        /\ verdict = "ok" /\ drift = 0 /\ live = {}
Step == /\ verdict = "ok" /\ l # 0 /\ l <= Len(Events)
        /\ LET cs == Clauses(Ev, st) f == FirstFailing(cs) IN
           /\ verdict' = f /\ live' = live \cup LiveOf(cs)
           /\ st' = IF Ev.ev = "Run" /\ Ev.status = 0 /\ ~st.has THEN [has |-> TRUE, first |-> Ev.hash] ELSE st
           /\ l' = IF f = "ok" THEN l + 1 ELSE l
           /\ UNCHANGED <<tid, drift>>
Finish == /\ l # 0 /\ (verdict # "ok" \/ l > Len(Events))
          /\ PrintT(<<"VERDICT", Traces[tid].id, verdict, drift, live, l>>)
          /\ l' = 0 /\ UNCHANGED <<tid, st, verdict, drift, live>>
Next == Step \/ Finish
TraceSpec == Init /\ [][Next]_vars
=============================================================================

----------------------------- MODULE Trace_Session -----------------------------
(***************************************************************************)
(* Trace validation of real render calls against Session.tla.               *)
(* Events (global order = sequence number taken under the recorder's lock): *)
(*   Begin    prog (thread -> jobs), K, F                                   *)
(*   Build    t, job, what            a build step of a pipeline observed   *)
(*                                    step by step (merge_models, pair      *)
(*                                    comparison, group merge)              *)
(*   CtxEnter t, job                  Context.__enter__                     *)
(*   Read     t, job, seen            AbsoluteModelRef.to_typing_code: the  *)
(*                                    job whose mapping the thread saw      *)
(*   CtxExit  t, job, failed          Context.__exit__                      *)
(*   Done     t, job, out, solo, fresh, exc, planned, ctxAfter, regSame     *)
(* The Session actions are followed event by event (else: drift); clauses   *)
(* of C14 / C15 are evaluated on the events themselves.                     *)
(***************************************************************************)
EXTENDS Session, Json, IOUtils, TLCExt, FiniteSetsExt

CONSTANT Claim
Batch  == JsonDeserialize(IOEnv.TRACE_FILE)
Traces == Batch.traces
VARIABLES tid, l, verdict, drift, live
tvars == <<tid, l, verdict, drift, live>>
allvars == <<vars, tvars>>
Events == Traces[tid].events
Ev     == Events[l]
B0(t)  == Traces[t].events[1]
\* constants of Session taken from the batch (measured on the real jobs)
TThreads == {Batch.threads[i] : i \in DOMAIN Batch.threads}
TJobs == DOMAIN Batch.K
TK == Batch.K
TF == Batch.F
TB == Batch.B
TProgSet == {}

Expect(ev) ==
  CASE ev.ev = "CtxEnter" -> ev.t \in Threads /\ Active(ev.t) /\ pos[ev.t] = 0 /\ Job(ev.t) = ev.job /\ built[ev.t] = B[Job(ev.t)]
    [] ev.ev = "Build"    -> ev.t \in Threads /\ Active(ev.t) /\ pos[ev.t] = 0 /\ Job(ev.t) = ev.job /\ built[ev.t] < B[Job(ev.t)]
    [] ev.ev = "Read"     -> ev.t \in Threads /\ Active(ev.t) /\ pos[ev.t] >= 1 /\ pos[ev.t] <= K[Job(ev.t)] /\ ~Fails(ev.t)
                             /\ ev.seen = ctx[Slot(ev.t)]
    [] ev.ev = "CtxExit"  -> ev.t \in Threads /\ Active(ev.t) /\ pos[ev.t] >= 1 /\ (pos[ev.t] = K[Job(ev.t)] + 1 \/ Fails(ev.t))
    [] OTHER -> TRUE
ModelStep(ev) ==
  CASE ev.ev = "CtxEnter" -> CtxEnter(ev.t)
    [] ev.ev = "Build"    -> BuildStep(ev.t)
    [] ev.ev = "Read"     -> RenderField(ev.t)
    [] ev.ev = "CtxExit"  -> CtxExit(ev.t)
    [] OTHER -> UNCHANGED vars

Clauses(ev) ==
  CASE Claim = "C15" ->
         (CASE ev.ev = "Read" -> << <<"C15.ctx-own", TRUE, ev.seen = ev.job>> >>
            [] ev.ev = "Done" -> << <<"C15.no-failure", ~ev.planned, ev.planned \/ ev.exc = "">>,
                                    <<"C15.solo-eq", ~ev.planned /\ ev.exc = "", ~(~ev.planned /\ ev.exc = "") \/ ev.out = ev.solo>> >>
            [] OTHER -> <<>>)
    [] Claim = "C14" ->
         (CASE ev.ev = "Read" -> << <<"C14.ctx-own", TRUE, ev.seen = ev.job>> >>
            [] ev.ev = "Done" -> << <<"C14.no-failure", ~ev.planned, ev.planned \/ ev.exc = "">>,
                                    <<"C14.failure-propagates", ev.planned, ~ev.planned \/ ev.exc # "">>,
                                    <<"C14.ctx-restored", TRUE, ev.ctxAfter = "none">>,
                                    <<"C14.registry-untouched", TRUE, ev.regSame>>,
                                    <<"C14.fresh", ~ev.planned /\ ev.exc = "", ~(~ev.planned /\ ev.exc = "") \/ ev.out = ev.fresh>> >>
            [] OTHER -> <<>>)
    [] OTHER -> <<>>

FirstFailing(cs) == LET bad == {i \in DOMAIN cs : ~cs[i][3]} IN IF bad = {} THEN "ok" ELSE cs[Min(bad)][1]
LiveOf(cs) == {cs[i][1] : i \in {j \in DOMAIN cs : cs[j][2]}}

TInit == /\ tid \in DOMAIN Traces /\ l = 2 /\ verdict = "ok" /\ drift = 0 /\ live = {}
         /\ prog = B0(tid).prog
         /\ ctx = [s \in (IF Shared THEN {"all"} ELSE Threads) |-> "none"]
         /\ old = [t \in Threads |-> "none"] /\ pos = [t \in Threads |-> 0] /\ cur = [t \in Threads |-> 1]
         /\ seen = [t \in Threads |-> <<>>] /\ done = [t \in Threads |-> <<>>] /\ sched = <<>>
         /\ built = [t \in Threads |-> 0] /\ memo = [s \in (IF Shared THEN {"all"} ELSE Threads) |-> "none"]
Step == /\ verdict = "ok" /\ l # 0 /\ l <= Len(Events)
        /\ LET cs == Clauses(Ev) f == FirstFailing(cs) IN
           /\ verdict' = f /\ live' = live \cup LiveOf(cs)
           /\ l' = IF f = "ok" THEN l + 1 ELSE l
           /\ IF drift = 0 /\ Expect(Ev) THEN ModelStep(Ev) /\ drift' = 0
              ELSE UNCHANGED vars /\ drift' = IF drift = 0 THEN l ELSE drift
           /\ UNCHANGED tid
Finish == /\ l # 0 /\ (verdict # "ok" \/ l > Len(Events))
          /\ PrintT(<<"VERDICT", Traces[tid].id, verdict, drift, live, l>>)
          /\ l' = 0 /\ UNCHANGED <<vars, tid, verdict, drift, live>>
TNext == Step \/ Finish
TraceSpec == TInit /\ [][TNext]_allvars
=============================================================================

------------------------------- MODULE J2MBase -------------------------------
(***************************************************************************)
(* Uniform node shape shared by JSON values, the type IR of                 *)
(* json2python-models and emitted annotations (DESIGN.md 4.1).              *)
(*                                                                          *)
(*   [k: kind, n: string id, ls: set of string ids,                         *)
(*    xs: sequence of nodes, ks: sequence of string ids]                    *)
(*                                                                          *)
(* values  null | bool | int | float | str(n) | list(xs) | obj(ks, xs)      *)
(* types   unknown | null | int | float | bool | str | pseudo(n) | lit(ls)  *)
(*         | litover | opt(x) | list(x) | dict(x) | union(xs)               *)
(*         | obj(ks,xs) [unregistered model] | ptr(n = model index)         *)
(*                                                                          *)
(* Strings never appear raw: they are interned ids ("s17"); everything the  *)
(* model needs to know about a string comes in an environment record `e`.   *)
(***************************************************************************)
EXTENDS Naturals, Sequences, FiniteSets, FiniteSetsExt, SequencesExt, TLC

N(k, n, ls, xs, ks) == [k |-> k, n |-> n, ls |-> ls, xs |-> xs, ks |-> ks]
A(k) == N(k, "", {}, <<>>, <<>>)

\* ---- JSON values
VNull      == A("null")
VInt       == A("int")
VFloat     == A("float")
VBool      == A("bool")
VStr(s)    == N("str", s, {}, <<>>, <<>>)
VList(xs)  == N("list", "", {}, xs, <<>>)
VObj(ks, xs) == N("obj", "", {}, xs, ks)
VMissing   == A("missing")          \* pseudo value: key absent from an object

\* ---- types
TUnknown   == A("unknown")
TNull      == A("null")
TInt       == A("int")
TFloat     == A("float")
TBool      == A("bool")
TStr       == A("str")
TLitOver   == A("litover")           \* overflowed StringLiteral (>15 values or a string of >=20 chars)
TCrash     == A("CRASH")             \* the model's explicit value for "the code raised here"
TPseudo(p) == N("pseudo", p, {}, <<>>, <<>>)
TLit(S)    == N("lit", "", S, <<>>, <<>>)
TOpt(x)    == N("opt", "", {}, <<x>>, <<>>)
TList(x)   == N("list", "", {}, <<x>>, <<>>)
TDict(x)   == N("dict", "", {}, <<x>>, <<>>)
TUnion(S)  == N("union", "", {}, SetToSeq(S), <<>>)
TObj(ks, xs) == N("obj", "", {}, xs, ks)
TPtr(ix)   == N("ptr", ix, {}, <<>>, <<>>)

Members(u) == {u.xs[i] : i \in DOMAIN u.xs}
Parts(t)   == IF t.k = "union" THEN Members(t) ELSE {t}

HasKey(o, key) == \E i \in DOMAIN o.ks : o.ks[i] = key
FieldOf(o, key) == LET i == CHOOSE i \in DOMAIN o.ks : o.ks[i] = key IN o.xs[i]

\* Nodes read from JSON carry `ls` as a sequence: normalise.
RECURSIVE Fix(_)
Fix(x) == [k |-> x.k, n |-> x.n, ls |-> ToSet(x.ls),
           xs |-> [i \in DOMAIN x.xs |-> Fix(x.xs[i])], ks |-> x.ks]

\* Order-free canonical form: union members and object fields as sets.
\* kids = set of <<tag, canon>>; tag = field key for obj, "" otherwise.
RECURSIVE Canon(_)
Canon(t) == [k |-> t.k, n |-> t.n, ls |-> t.ls,
             kids |-> IF t.k = "obj"
                      THEN {<<t.ks[i], Canon(t.xs[i])>> : i \in DOMAIN t.xs}
                      ELSE {<<"", Canon(t.xs[i])>> : i \in DOMAIN t.xs}]

\* Python `==` on two IR nodes (ComplexType compares sorted member lists, dicts compare as
\* mappings, StringLiteral by literal set): equality of canonical forms.
TEq(a, b) == Canon(a) = Canon(b)

Sel(s, P(_)) == SelectSeq(s, P)

\* sequence of the elements of all lists / values of all objects in w
Elems(w) == FlattenSeq([i \in DOMAIN w |-> w[i].xs])

\* values found under `key` in the objects of w; absent key -> VMissing
FieldObs(w, key) == [i \in DOMAIN w |-> IF HasKey(w[i], key) THEN FieldOf(w[i], key) ELSE VMissing]

RECURSIVE SumSeq(_)
SumSeq(s) == IF s = <<>> THEN 0 ELSE Head(s) + SumSeq(Tail(s))

RECURSIVE Size(_)
Size(t) == 1 + SumSeq([i \in DOMAIN t.xs |-> Size(t.xs[i])])
=============================================================================

------------------------------ MODULE TraceBase ------------------------------
(***************************************************************************)
(* Shared plumbing of the trace specifications (loop C).                    *)
(*                                                                          *)
(* A batch file holds many traces; `tid` is chosen in Init, so every trace  *)
(* is one behaviour.  Trace specs are TOTAL: an event that fails a clause   *)
(* never disables Next; the name of the first failing clause is kept in     *)
(* `verdict` and printed as one VERDICT line per trace.                     *)
(* A clause is <<name, live, ok>>: `live` says its antecedent was true      *)
(* (non-vacuous), `ok` that it held.                                        *)
(***************************************************************************)
EXTENDS J2MBase, Json, IOUtils, TLCExt

Batch  == JsonDeserialize(IOEnv.TRACE_FILE)
Traces == Batch.traces

FixSeq(s) == [i \in DOMAIN s |-> Fix(s[i])]

\* environment record as shipped in JSON -> the record JsonTypes expects
FixEnv(j) == [reg  |-> j.reg,
              repl |-> {<<j.repl[i][1], j.repl[i][2]>> : i \in DOMAIN j.repl},
              acc  |-> [s \in DOMAIN j.acc |-> ToSet(j.acc[s])],
              long |-> ToSet(j.long),
              dkf  |-> ToSet(j.dkf),
              ndkr |-> j.ndkr,
              dkrm |-> [s \in DOMAIN j.dkrm |-> ToSet(j.dkrm[s])]]

\* name of the first failing clause, or "ok"
FirstFailing(cs) ==
  LET bad == {i \in DOMAIN cs : ~cs[i][3]}
  IN IF bad = {} THEN "ok" ELSE cs[Min(bad)][1]
LiveOf(cs) == {cs[i][1] : i \in {j \in DOMAIN cs : cs[j][2]}}
=============================================================================

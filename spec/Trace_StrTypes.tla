----------------------------- MODULE Trace_StrTypes -----------------------------
(***************************************************************************)
(* Trace specification for the pseudo-type registry.  The batch carries the *)
(* acceptance table of the whole string corpus (Batch.acc: string id ->     *)
(* class names whose real parser accepted it).  Events:                     *)
(*   RegOp     op, arg -> types, repl        registry after add/remove      *)
(*   Detect    s, types -> detected          _detect_type with that registry*)
(*   Resolve   S, types, repl -> R           registry.resolve of S          *)
(*   Roundtrip t, s -> v1, s2, v2 | exc      parse, render, parse again     *)
(*   Output    types, used                   pseudo-types named in output   *)
(***************************************************************************)
EXTENDS StrTypes, TraceBase

CONSTANT Claim
VARIABLES tid, l, st, verdict, drift, live
vars == <<tid, l, st, verdict, drift, live>>

Events == Traces[tid].events
Ev     == Events[l]
AccT   == [s \in DOMAIN Batch.acc |-> ToSet(Batch.acc[s])]
RegOf(ev) == [types |-> ev.types, repl |-> {<<ev.repl[i][1], ev.repl[i][2]>> : i \in DOMAIN ev.repl}]

Clauses(ev, s) ==
  IF Claim # "C09" THEN <<>> ELSE
  CASE ev.ev = "Detect" ->
         << <<"C09.detect-total", TRUE, ev.exc = "">>,
            <<"C09.first-match", TRUE, FirstMatch(ev.s, ev.detected, [types |-> ev.types], AccT)>>,
            <<"C09.only-if-accepts", ev.detected # "", OnlyIfAccepts(ev.s, ev.detected, AccT)>>,
            <<"C09.disabled", ev.detected # "", NeverDisabled(ev.detected, [types |-> ev.types])>> >>
    \* strings inside one list: each item is classified on its own, in registration order (neighbours do not matter)
    [] ev.ev = "DetectList" ->
         << <<"C09.detect-total", TRUE, ev.exc = "">>,
            <<"C09.first-match.list", ev.exc = "",
              ev.exc # "" \/ ToSet(ev.members) = {FirstMatchName(ev.items[i], [types |-> ev.types], AccT) : i \in DOMAIN ev.items} \ {""}>> >>
    [] ev.ev = "Resolve" ->
         << <<"C09.resolve-total", TRUE, ev.exc = "">>,
            <<"C09.resolve-covers", ev.exc = "" /\ Len(ev.R) = 1,
              ev.exc # "" \/ ResolveSound(ToSet(ev.S), ToSet(ev.R), AccT)>>,
            <<"C09.resolve-members", ev.exc = "", ev.exc # "" \/ (ToSet(ev.R) \subseteq ToSet(ev.S) /\ ev.R # <<>>)>> >>
    [] ev.ev = "Roundtrip" ->
         << <<"C09.roundtrip", TRUE, ev.exc = "" /\ ev.v1 = ev.v2>> >>
    \* "disabled types never appear": after remove(cls) / remove_by_name(name) the class (every class of that name / actual type)
    \* is not registered any more, whatever happened to the registry before
    [] ev.ev = "RegOp" ->
         << <<"C09.removed-gone", ev.op \in {"remove", "disable"},
              CASE ev.op = "remove" -> ev.arg \notin ToSet(ev.types)
                [] ev.op = "disable" -> \A c \in ToSet(ev.types) : c # ev.arg /\ (c \in AllClasses => ActualName[c] # ev.arg)
                [] OTHER -> TRUE>> >>
    [] ev.ev = "Output" ->
         << <<"C09.disabled.output", ev.used # <<>>, ToSet(ev.used) \subseteq ToSet(ev.types)>> >>
    [] OTHER -> <<>>

Drifts(ev, s) ==
  CASE ev.ev = "RegOp" ->
         LET m == CASE ev.op = "default"  -> DefaultReg
                    [] ev.op = "datetime" -> RegDatetime(s.reg)
                    [] ev.op = "disable"  -> RegRemoveByName(s.reg, ev.arg)
                    [] ev.op = "remove"   -> RegRemove(s.reg, ev.arg)
                    [] OTHER -> s.reg
         IN m # RegOf(ev)
    [] ev.ev = "Resolve" /\ ev.exc = "" -> ToSet(ev.R) # Resolve(ToSet(ev.S), RegOf(ev).repl)
    [] ev.ev = "Detect" ->
         LET d == DetectStr(ev.s, EnvOf([types |-> ev.types, repl |-> {}], AccT))
         IN (IF d.k = "pseudo" THEN d.n ELSE "") # ev.detected
    [] OTHER -> FALSE
NextSt(ev, s) == IF ev.ev = "RegOp" THEN [reg |-> RegOf(ev)] ELSE s

Init == /\ tid \in DOMAIN Traces /\ l = 1 /\ st = [reg |-> DefaultReg]
        /\ verdict = "ok" /\ drift = 0 /\ live = {}
Step == /\ verdict = "ok" /\ l # 0 /\ l <= Len(Events)
        /\ LET cs == Clauses(Ev, st)
               f  == FirstFailing(cs) IN
           /\ verdict' = f
           /\ live' = live \cup LiveOf(cs)
           /\ drift' = IF drift = 0 /\ Drifts(Ev, st) THEN l ELSE drift
           /\ st' = NextSt(Ev, st)
           /\ l' = IF f = "ok" THEN l + 1 ELSE l
           /\ UNCHANGED tid
Finish == /\ l # 0 /\ (verdict # "ok" \/ l > Len(Events))
          /\ PrintT(<<"VERDICT", Traces[tid].id, verdict, drift, live, l>>)
          /\ l' = 0 /\ UNCHANGED <<tid, st, verdict, drift, live>>
Next == Step \/ Finish
TraceSpec == Init /\ [][Next]_vars
=============================================================================

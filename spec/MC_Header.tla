------------------------------- MODULE MC_Header -------------------------------
(***************************************************************************)
(* Every command text of <= MaxLen characters over the five classes:        *)
(*   Safe      the escaped text keeps the header literal intact             *)
(*   Needed    (recorded, not required) which raw texts would break it      *)
(* Each text is emitted ("B"); the harness instantiates the classes with    *)
(* concrete characters, puts the text on a real command line and compares   *)
(* the lexer model with ast.parse on the real output.                       *)
(***************************************************************************)
EXTENDS Header, Json
CONSTANTS MaxLen, Emit
Classes == {"q", "b", "n", "o", "u"}
VARIABLE cmd
Init == cmd = <<>>
Next == \E c \in Classes : Len(cmd) < MaxLen /\ cmd' = Append(cmd, c)
Spec == Init /\ [][Next]_cmd
Safe == HeaderOK(Escape(cmd))
\* the escaping leaves texts without a triple quote alone
Minimal == (\A i \in 1..(Len(cmd) - 2) : ~(cmd[i] = "q" /\ cmd[i + 1] = "q" /\ cmd[i + 2] = "q")) => Escape(cmd) = cmd
EmitB == (Emit /\ ~HeaderOK(cmd)) => PrintT(<<"B", ToJson([cmd |-> cmd, rawok |-> FALSE])>>)
EmitOk == (Emit /\ HeaderOK(cmd) /\ Len(cmd) = MaxLen) => PrintT(<<"B", ToJson([cmd |-> cmd, rawok |-> TRUE])>>)
=============================================================================

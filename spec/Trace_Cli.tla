-------------------------------- MODULE Trace_Cli --------------------------------
(***************************************************************************)
(* Trace validation of real command line runs against Cli.tla.              *)
(*                                                                          *)
(* Events (recorded by harness/record.py wrappers, in program order):       *)
(*   Start    plan, out0                 before main()                      *)
(*   Load     arg (index in the plan), ok                                   *)
(*   Validate ok      SetArgs ok                                            *)
(*   Generate model, ids, ok             MetadataGenerator.generate call    *)
(*   Render   ok                         generate_code return / raise       *)
(*   Open     mode                       builtins.open on the -o target     *)
(*   Write                                                                  *)
(*   Print    kind ("code" | "message")                                     *)
(*   Exit     status, outAfter ("absent"|"old"|"new"|"other"), codeHash,    *)
(*            libHash, fileHash                                             *)
(* Each event must be the step Cli.tla takes from the current model state   *)
(* (otherwise: drift); the C16 / C17 clauses are evaluated on the events    *)
(* themselves and never depend on the model having followed.                *)
(***************************************************************************)
EXTENDS Cli, Json, IOUtils, TLCExt, FiniteSetsExt

CONSTANT Claim
Batch  == JsonDeserialize(IOEnv.TRACE_FILE)
Traces == Batch.traces

VARIABLES tid, l, verdict, drift, live, hist
tvars == <<tid, l, verdict, drift, live, hist>>
allvars == <<vars, tvars>>

Events == Traces[tid].events
Ev     == Events[l]
PlanOf(t) == Traces[t].events[1].plan

\* ---- what the model expects next, as a predicate on the event
Order == LoadOrder(plan.args)
Expect(ev) ==
  CASE ev.ev = "Load" -> pc = "load" /\ nxt <= Len(Order) /\ ev.ok = (Order[nxt].kind \notin LoadFails)
    [] ev.ev = "Validate" -> pc = "validate" /\ ev.ok = (plan.fault \notin {"merge", "fwgen"})
    [] ev.ev = "SetArgs" -> pc = "setargs" /\ ev.ok = (plan.fault \notin {"mergearg", "import"})
    [] ev.ev = "Generate" -> pc = "generate" /\ gen < Len(ModelOrder(plan.args)) /\ ev.model = ModelOrder(plan.args)[gen + 1]
                             /\ ev.ok = ~(\E i \in DOMAIN plan.args : plan.args[i].model = ev.model /\ plan.args[i].kind \in GenFails)
    [] ev.ev = "Render" -> pc = "render" /\ ev.ok = (plan.fault # "generator")
    [] ev.ev = "Open" -> pc = "open"
    [] ev.ev = "Write" -> pc = "write"
    [] ev.ev = "Print" -> (ev.kind = "code" /\ pc = "emit" /\ plan.out = "none" /\ ev.ok = (plan.fault # "encode"))
                          \/ (ev.kind = "message" /\ pc = "exit" /\ status = 0)
    [] OTHER -> TRUE

\* ---- the model step an event stands for (composition of silent steps where the code has no observable boundary)
ModelStep(ev) ==
  CASE ev.ev = "Load" -> Load
    [] ev.ev = "Validate" -> Validate
    [] ev.ev = "SetArgs" -> SetArgs
    [] ev.ev = "Generate" -> Generate
    [] ev.ev = "Render" -> Render
    [] ev.ev = "Open" -> Open
    [] ev.ev = "Write" -> Write
    [] ev.ev = "Print" -> IF ev.kind = "code" THEN PrintCode ELSE UNCHANGED vars
    [] OTHER -> UNCHANGED vars

\* ---- clauses
Seen(name) == \E i \in DOMAIN hist : hist[i].ev = name
SeenOk(name) == \E i \in DOMAIN hist : hist[i].ev = name /\ hist[i].ok
P == Events[1].plan
FaultyPlan == Faulty(P)
C17Clauses(ev) ==
  CASE ev.ev = "Open" ->
         << <<"C17.open-after-render", TRUE, SeenOk("Render")>>,
            <<"C17.open-mode", TRUE, ev.mode = "w">> >>
    [] ev.ev = "Print" ->
         << <<"C17.no-code-before-render", ev.kind = "code", ev.kind # "code" \/ SeenOk("Render")>> >>
    [] ev.ev = "Exit" ->
         << <<"C17.status", FaultyPlan, ~FaultyPlan \/ ev.status # 0>>,
            <<"C17.success", ~FaultyPlan, FaultyPlan \/ ev.status = 0>>,
            <<"C17.no-code", ev.status # 0, ev.status = 0 \/ ~(\E i \in DOMAIN hist : hist[i].ev = "Print" /\ hist[i].kind = "code" /\ hist[i].ok)>>,
            <<"C17.untouched", ev.status # 0 /\ P.out \in {"old", "absent"},
              ~(ev.status # 0 /\ P.out \in {"old", "absent"}) \/ ev.outAfter = P.out>>,
            <<"C17.complete", ev.status = 0 /\ P.out \in {"old", "absent"},
              ~(ev.status = 0 /\ P.out \in {"old", "absent"}) \/ (ev.outAfter = "new" /\ ev.fileHash = ev.libHash)>> >>
    \* the same plan run as a real OS process (python -m json_to_models)
    [] ev.ev = "SubExit" ->
         << <<"C17.sub.status", FaultyPlan, ~FaultyPlan \/ ev.status # 0>>,
            <<"C17.sub.success", ~FaultyPlan, FaultyPlan \/ ev.status = 0>>,
            <<"C17.sub.no-code", ev.status # 0, ev.status = 0 \/ ev.stdout # "code">>,
            <<"C17.sub.untouched", ev.status # 0 /\ P.out \in {"old", "absent"},
              ~(ev.status # 0 /\ P.out \in {"old", "absent"}) \/ ev.outAfter = P.out>>,
            <<"C17.sub.complete", ev.status = 0 /\ P.out \in {"old", "absent"},
              ~(ev.status = 0 /\ P.out \in {"old", "absent"}) \/ (ev.outAfter = "new" /\ ev.fileHash \in ToSet(ev.libHashes))>> >>
    [] OTHER -> <<>>
C16Clauses(ev) ==
  CASE ev.ev = "Generate" ->
         \* (samples that are not objects carry no id: only models whose files all hold objects are compared)
         LET objs == ~(\E i \in DOMAIN P.args : P.args[i].model = ev.model /\ P.args[i].kind \in GenFails) IN
         << <<"C16.assemble", objs, ~objs \/ MatchChunks(ev.ids, Chunks(P.args, ev.model))>> >>
    [] ev.ev = "Exit" ->
         << \* where the library pipeline has a result (a fault-free plan) the command line has one too
            <<"C16.runs", ~FaultyPlan, FaultyPlan \/ ev.status = 0>>,
            <<"C16.stdout=lib", ev.status = 0 /\ P.out = "none", ~(ev.status = 0 /\ P.out = "none") \/ ev.codeHash = ev.libHash>>,
            <<"C16.file=lib", ev.status = 0 /\ P.out \in {"old", "absent"},
              ~(ev.status = 0 /\ P.out \in {"old", "absent"}) \/ ev.fileHash = ev.libHash>>,
            <<"C16.all-models", ev.status = 0,
              ev.status # 0 \/ {hist[i].model : i \in {j \in DOMAIN hist : hist[j].ev = "Generate"}} = Models(P.args)>> >>
    [] ev.ev = "SubExit" ->
         \* (libHashes: the library text for every order of every pattern chunk -- that order is unspecified)
         << <<"C16.sub.runs", ~FaultyPlan, FaultyPlan \/ ev.status = 0>>,
            <<"C16.sub.stdout=lib", ev.status = 0 /\ P.out = "none", ~(ev.status = 0 /\ P.out = "none") \/ ev.codeHash \in ToSet(ev.libHashes)>>,
            <<"C16.sub.file=lib", ev.status = 0 /\ P.out \in {"old", "absent"},
              ~(ev.status = 0 /\ P.out \in {"old", "absent"}) \/ ev.fileHash \in ToSet(ev.libHashes)>> >>
    [] OTHER -> <<>>
Clauses(ev) == IF Claim = "C17" THEN C17Clauses(ev) ELSE IF Claim = "C16" THEN C16Clauses(ev) ELSE <<>>

FirstFailing(cs) == LET bad == {i \in DOMAIN cs : ~cs[i][3]} IN IF bad = {} THEN "ok" ELSE cs[Min(bad)][1]
LiveOf(cs) == {cs[i][1] : i \in {j \in DOMAIN cs : cs[j][2]}}

TInit == /\ tid \in DOMAIN Traces /\ l = 2 /\ verdict = "ok" /\ drift = 0 /\ live = {} /\ hist = <<>>
         \* argument parsing has no observable boundary: the trace starts after the silent Parse step
         /\ LET p == PlanOf(tid) IN
            /\ plan = p /\ nxt = 1 /\ gen = 0 /\ loaded = [m \in Models(p.args) |-> <<>>]
            /\ out = Out0(p) /\ printed = "none" /\ rendered = FALSE
            /\ pc = (IF p.fault = "argparse" THEN "exit" ELSE "load")
            /\ status = (IF p.fault = "argparse" THEN 2 ELSE -1)
\* steps of the model that have no observable boundary in the code (bounded: each moves pc forward once)
\* a pattern argument produces one Load event per matched file (two): the first is absorbed, the second is the model's Load
LoadsOf(arg) == Cardinality({i \in DOMAIN hist : hist[i].ev = "Load" /\ hist[i].arg = arg})
\* (the same pattern given again -- an alias -- reads the same two files again: every odd load of the pattern is absorbed)
FirstOfGlob(ev) == ev.ev = "Load" /\ ev.arg \in DOMAIN P.args /\ P.args[ev.arg].kind = "glob" /\ LoadsOf(ev.arg) % 2 = 0
NeedsSilent(ev) == \/ (ev.ev = "Validate" /\ pc = "load" /\ nxt > Len(Order))      \* leaving the load loop
                   \/ (ev.ev = "Render" /\ pc = "generate" /\ gen >= Len(ModelOrder(plan.args)))   \* all generate() calls returned
                   \/ (ev.ev = "Open" /\ pc = "emit" /\ plan.out # "none")          \* the text was encoded before the target is opened
Silent == /\ verdict = "ok" /\ drift = 0 /\ l # 0 /\ l <= Len(Events) /\ NeedsSilent(Ev)
          /\ (IF pc = "load" THEN Load ELSE IF pc = "generate" THEN Generate ELSE Encode)
          /\ UNCHANGED tvars
Step == /\ verdict = "ok" /\ l # 0 /\ l <= Len(Events) /\ ~(drift = 0 /\ NeedsSilent(Ev))
        /\ LET cs == Clauses(Ev)
               f  == FirstFailing(cs) IN
           /\ verdict' = f
           /\ live' = live \cup LiveOf(cs)
           /\ hist' = Append(hist, Ev)
           /\ l' = IF f = "ok" THEN l + 1 ELSE l
           /\ IF drift = 0 /\ FirstOfGlob(Ev) THEN UNCHANGED vars /\ drift' = 0
              ELSE IF drift = 0 /\ Expect(Ev) THEN ModelStep(Ev) /\ drift' = 0
              ELSE UNCHANGED vars /\ drift' = IF drift = 0 THEN l ELSE drift
           /\ UNCHANGED tid
Finish == /\ l # 0 /\ (verdict # "ok" \/ l > Len(Events))
          /\ PrintT(<<"VERDICT", Traces[tid].id, verdict, drift, live, l>>)
          /\ l' = 0 /\ UNCHANGED <<vars, tid, verdict, drift, live, hist>>
TNext == Step \/ Silent \/ Finish
TraceSpec == TInit /\ [][TNext]_allvars
=============================================================================

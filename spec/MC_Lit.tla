--------------------------------- MODULE MC_Lit ---------------------------------
(***************************************************************************)
(* C10 at design level: the algorithm layer (Detect, DUnionCtor via         *)
(* MergeStep, Optimize) followed by the rendering rule Render!Ann must emit *)
(* Literal[...] for a string field exactly as the documented rule says.     *)
(*                                                                          *)
(* A case: `count` distinct plain strings (ids "p1".."p17"), one of them    *)
(* possibly of >= 20 characters (position `longAt`, 0 = none), optionally   *)
(* one int-like string as company, fed one per sample in the order given    *)
(* by `rot` (rotation of the sample list); maximum `maxlit`; framework fw.  *)
(*   LitRule: emitted literal sets = {P} if LitMay(P) and nothing forced    *)
(*            str, else none;  never a literal for attrs / max = 0.         *)
(* Every case is emitted ("B") and replayed through the real pipeline.      *)
(***************************************************************************)
EXTENDS Render, Json
CONSTANTS MaxCount, Emit
Ids == [i \in 1..17 |-> "p" \o ToString(i)]
Frameworks == {"base", "pydantic", "attrs", "dataclasses"}
VARIABLES count, longAt, company, maxlit, fw, rot, result, pc
vars == <<count, longAt, company, maxlit, fw, rot, result, pc>>

P == {Ids[i] : i \in 1..count}
Env == [reg |-> <<"IntString", "FloatString", "BooleanString">>, repl |-> {<<"IntString", "FloatString">>},
        acc |-> [s \in P \cup {"sInt", "a"} |-> IF s = "sInt" THEN {"IntString", "FloatString"} ELSE {}],
        long |-> IF longAt = 0 THEN {} ELSE {Ids[longAt]}, dkf |-> {}, ndkr |-> 0, dkrm |-> <<>>]
Rotate(s, k) == IF s = <<>> THEN s ELSE [i \in DOMAIN s |-> s[((i + k - 1) % Len(s)) + 1]]
Samples == LET base == [i \in 1..count |-> VObj(<<"a">>, <<VStr(Ids[i])>>)]
               all == IF company THEN Append(base, VObj(<<"a">>, <<VStr("sInt")>>)) ELSE base
           IN Rotate(all, rot)
Init == /\ count \in 0..MaxCount /\ longAt \in 0..(IF count > 0 THEN 1 ELSE 0) * count
        /\ longAt \in {0, 1, count}
        /\ company \in BOOLEAN /\ (count > 0 \/ company)
        /\ maxlit \in {0, 1, 2, 3, 10, 15, 16, 17} /\ fw \in Frameworks
        /\ rot \in {0, 1, 2} /\ result = TNull /\ pc = "gen"
        /\ (Emit => PrintT(<<"B", ToJson([count |-> count, longAt |-> longAt, company |-> company, maxlit |-> maxlit, fw |-> fw, rot |-> rot])>>))
Gen == /\ pc = "gen" /\ result' = Generate(Samples, Env) /\ pc' = "done"
       /\ UNCHANGED <<count, longAt, company, maxlit, fw, rot>>
Spec == Init /\ [][Gen]_vars

O == [fw |-> fw, maxlit |-> maxlit, meta |-> FALSE]
Emitted == LitsIn(CanonA(Ann(FieldOf(result, "a"), O, <<>>)))
LitRule == pc = "done" =>
   LET may == LitMay(P, Env, O) /\ P # {}
   IN /\ (Emitted # {} => may)                                  \* only when the rule allows
      /\ (may => Emitted = {P})                                 \* and then exactly the observed strings (one int-like companion
                                                                \*   does not force str: Union[IntString, Literal[...]])
      /\ ((fw = "attrs" \/ maxlit = 0) => Emitted = {})
=============================================================================

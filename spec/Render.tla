-------------------------------- MODULE Render --------------------------------
(***************************************************************************)
(* Independent rendering of the model graph (the oracle of C04) and the     *)
(* facts about emitted modules that C03 / C10 / C11 / C12 / C18 talk about. *)
(*                                                                          *)
(*  Ann(t, o, nameOf)   IR type -> annotation term under framework style    *)
(*  RenderModel         model -> set of field records [py, jk, ann, dk]     *)
(*  CanonA              typing's normalisation: Optional[X] = Union[X,None],*)
(*                      nested unions flattened, duplicates removed, a      *)
(*                      one-member union is that member                     *)
(*  PyLoad part         class-body evaluation: a statement's unquoted names *)
(*                      are looked up in class locals, then module globals  *)
(*                      (never enclosing classes); NoShadow says every such *)
(*                      lookup of an imported name still finds the import   *)
(*  LitMay / LitMust    the documented Literal rule (C10)                   *)
(*  FieldPath/Interpret converter paths O/L/D/S (C18)                       *)
(*                                                                          *)
(* Options record o: [fw, maxlit, meta, post, cu]                           *)
(* Label table lab: key id -> python name id (logged prepare_label result); *)
(* nameOf: model index -> class name id (logged).                           *)
(***************************************************************************)
EXTENDS Registry

AAny  == A("any")
ANone == A("none")
ACls(n) == N("cls", n, {}, <<>>, <<>>)
ALit(S) == N("literal", "", S, <<>>, <<>>)
AUnion(xs) == N("union", "", {}, xs, <<>>)

Pydantic(o) == o.fw \in {"pydantic", "sqlmodel"}
ActualAnn(p) ==
  CASE p = "IntString" -> A("int") [] p = "FloatString" -> A("float") [] p = "BooleanString" -> A("bool")
    [] p = "IsoDateString" -> ACls("date") [] p = "IsoTimeString" -> ACls("time")
    [] p = "IsoDatetimeString" -> ACls("datetime") [] OTHER -> ACls(p)

\* may a literal set be written as Literal[...] under these options (framework style + limit)
LitShown(S, o) == o.fw # "attrs" /\ Cardinality(S) < o.maxlit

RECURSIVE Ann(_, _, _)
Ann(t, o, nameOf) ==
  CASE t.k \in {"int", "float", "bool", "str"} -> A(t.k)
    [] t.k = "litover" -> A("str")
    [] t.k = "null" -> ANone
    [] t.k = "unknown" -> AAny
    [] t.k = "pseudo" -> IF Pydantic(o) THEN ActualAnn(t.n) ELSE ACls(t.n)
    [] t.k = "lit" -> IF LitShown(t.ls, o) THEN ALit(t.ls) ELSE A("str")
    [] t.k = "opt" -> AUnion(<<Ann(t.xs[1], o, nameOf), ANone>>)
    [] t.k \in {"list", "dict"} -> N(t.k, "", {}, <<Ann(t.xs[1], o, nameOf)>>, <<>>)
    [] t.k = "union" -> AUnion([i \in DOMAIN t.xs |-> Ann(t.xs[i], o, nameOf)])
    [] t.k = "ptr" -> IF t.n \in DOMAIN nameOf THEN ACls(nameOf[t.n]) ELSE A("dangling")
    [] OTHER -> A("bad")

\* typing's normal form, order free
RECURSIVE CanonA(_)
CanonA(a) ==
  IF a.k = "union" THEN
     LET cs == {CanonA(a.xs[i]) : i \in DOMAIN a.xs}
         flat == UNION {IF c.k = "union" THEN {p[2] : p \in c.kids} ELSE {c} : c \in cs}
     IN IF Cardinality(flat) = 1 THEN CHOOSE c \in flat : TRUE
        ELSE [k |-> "union", n |-> "", ls |-> {}, kids |-> {<<"", c>> : c \in flat}]
  ELSE [k |-> a.k, n |-> a.n, ls |-> a.ls, kids |-> {<<"", CanonA(a.xs[i])>> : i \in DOMAIN a.xs}]

RECURSIVE HasUnresolved(_)
HasUnresolved(c) == c.k \in {"unresolved", "weird", "dangling", "bad"} \/ \E p \in c.kids : HasUnresolved(p[2])

DefaultKind(t, o) ==
  IF o.fw = "base" \/ t.k # "opt" THEN "none"
  ELSE IF t.xs[1].k = "list" THEN "list" ELSE IF t.xs[1].k = "dict" THEN "dict" ELSE "None"

\* pydantic / sqlmodel drop fields whose every observed value is null (type null) -- and Unknown
Kept(t, o) == ~(Pydantic(o) /\ t.k \in {"unknown", "null"})

RenderModel(m, o, lab, nameOf) ==
  {[py  |-> lab[m.t.ks[i]],
    jk  |-> IF Pydantic(o) \/ (o.meta /\ o.fw \in {"attrs", "dataclasses"}) THEN m.t.ks[i] ELSE lab[m.t.ks[i]],
    ann |-> CanonA(Ann(m.t.xs[i], o, nameOf)),
    dk  |-> DefaultKind(m.t.xs[i], o)] : i \in {j \in DOMAIN m.t.ks : Kept(m.t.xs[j], o)}}

LoadedFields(c) == {[py |-> c.fields[i].py, jk |-> c.fields[i].jk, ann |-> CanonA(Fix(c.fields[i].ann)), dk |-> c.fields[i].dk]
                    : i \in DOMAIN c.fields}
Proj(S, f(_)) == {f(x) : x \in S}

\* ---------------------------------------------------------------- PyLoad: shadowing
\* Statement i of a class body looks its `uses` up in {names bound by earlier statements of this body} first.
\* It must not find an earlier binding of this body under a name the module imports.
RECURSIVE NoShadowCls(_, _)
NoShadowCls(c, imports) ==
  /\ \A i \in DOMAIN c.body : \A j \in 1..(i - 1) :
        (c.body[j].binds /\ c.body[j].name \in imports) => c.body[j].name \notin ToSet(c.body[i].uses)
  /\ \A k \in DOMAIN c.nested : NoShadowCls(c.nested[k], imports)
\* module level: a class whose name equals an imported name rebinds it for everything after it
RECURSIVE UsesOfCls(_)
UsesOfCls(c) == ToSet(c.deco) \cup UNION {ToSet(c.body[i].uses) : i \in DOMAIN c.body}
                \cup UNION {UsesOfCls(c.nested[k]) : k \in DOMAIN c.nested}
NoShadowModule(mod) ==
  LET imports == ToSet(mod.imports) IN
  /\ \A i \in DOMAIN mod.classes : NoShadowCls(mod.classes[i], imports)
  /\ \A i \in DOMAIN mod.classes : \A j \in 1..(i - 1) :
        mod.classes[j].name \in imports => mod.classes[j].name \notin UsesOfCls(mod.classes[i])
  /\ \A i \in DOMAIN mod.classes : mod.classes[i].name \in imports => mod.classes[i].name \notin UsesOfCls(mod.classes[i])
RECURSIVE ClassNames(_)
ClassNames(cs) == FlattenSeq([i \in DOMAIN cs |-> <<cs[i].name>> \o ClassNames(cs[i].nested)])
RECURSIVE IdentsOK(_)
IdentsOK(cs) == \A i \in DOMAIN cs : cs[i].ident_ok /\ IdentsOK(cs[i].nested)
\* names bound in one class body are pairwise distinct (fields and nested classes)
RECURSIVE UniqueInScope(_)
UniqueInScope(cs) ==
  /\ Cardinality({cs[i].name : i \in DOMAIN cs}) = Len(cs)
  /\ \A i \in DOMAIN cs :
        LET b == SelectSeq(cs[i].body, LAMBDA s : s.kind \in {"field", "class"}) IN
        /\ Cardinality({b[j].name : j \in DOMAIN b}) = Len(b)
        /\ UniqueInScope(cs[i].nested)

\* ---------------------------------------------------------------- literal rule (C10)
\* all strings found in a value, through lists
RECURSIVE StrLeaves(_)
StrLeaves(v) == IF v.k = "str" THEN {v.n} ELSE IF v.k = "list" THEN UNION {StrLeaves(v.xs[i]) : i \in DOMAIN v.xs} ELSE {}
FieldStrings(samples, key) == UNION {StrLeaves(FieldOf(samples[i], key)) : i \in {j \in DOMAIN samples : HasKey(samples[j], key)}}
LitMay(P, e, o) == /\ o.fw # "attrs" /\ o.maxlit > 0
                   /\ \A s \in P : s \notin e.long
                   /\ Cardinality(P) <= 15 /\ Cardinality(P) < o.maxlit
\* the literal sets appearing anywhere in a canonical annotation, and whether plain str appears
RECURSIVE LitsIn(_)
LitsIn(c) == (IF c.k = "literal" THEN {c.ls} ELSE {}) \cup UNION {LitsIn(p[2]) : p \in c.kids}
\* one position = one list-nesting depth of a field: strings found at depth d of the values,
\* literal sets found at depth d of the annotation (Optional / Union are transparent)
RECURSIVE StrLeavesD(_, _)
StrLeavesD(v, d) == IF d = 0 THEN (IF v.k = "str" THEN {v.n} ELSE {})
                    ELSE IF v.k = "list" THEN UNION {StrLeavesD(v.xs[i], d - 1) : i \in DOMAIN v.xs} ELSE {}
FieldStringsD(samples, key, d) ==
  UNION {StrLeavesD(FieldOf(samples[i], key), d) : i \in {j \in DOMAIN samples : HasKey(samples[j], key)}}
RECURSIVE LitsInD(_, _)
LitsInD(c, d) ==
  CASE c.k = "literal" -> IF d = 0 THEN {c.ls} ELSE {}
    [] c.k = "union" -> UNION {LitsInD(p[2], d) : p \in c.kids}
    [] c.k = "list" -> IF d > 0 THEN UNION {LitsInD(p[2], d - 1) : p \in c.kids} ELSE {}
    [] OTHER -> {}
RECURSIVE HasStr(_)
HasStr(c) == c.k = "str" \/ \E p \in c.kids : HasStr(p[2])

\* ---------------------------------------------------------------- converter paths (C18)
\* exactly one pseudo-typed leaf reachable through opt/list/dict, no union / pointer on the way
RECURSIVE Leaves(_)
Leaves(t) == CASE t.k = "pseudo" -> {<<"S">>}
               [] t.k = "opt" -> {<<"O">> \o p : p \in Leaves(t.xs[1])}
               [] t.k = "list" -> {<<"L">> \o p : p \in Leaves(t.xs[1])}
               [] t.k = "dict" -> {<<"D">> \o p : p \in Leaves(t.xs[1])}
               [] t.k \in {"union", "ptr"} -> {<<"X">>}
               [] OTHER -> {}
HasPath(t) == Cardinality(Leaves(t)) = 1 /\ (\A p \in Leaves(t) : p[Len(p)] = "S")
\* what a value must look like after conversion: strings at the pseudo leaf parsed (tag), nulls kept, rest identical
\* values are projected by the harness as nodes: str(n) | conv(n = pseudo class, ls = {source string id}) | null | list | obj
RECURSIVE Expected(_, _)
Expected(v, t) ==
  CASE t.k = "pseudo" -> IF v.k = "str" THEN N("conv", t.n, {v.n}, <<>>, <<>>) ELSE v
    [] t.k = "opt" -> IF v.k = "null" THEN v ELSE Expected(v, t.xs[1])
    [] t.k = "list" -> IF v.k = "list" THEN [v EXCEPT !.xs = [i \in DOMAIN v.xs |-> Expected(v.xs[i], t.xs[1])]] ELSE v
    [] t.k = "dict" -> IF v.k = "obj" THEN [v EXCEPT !.xs = [i \in DOMAIN v.xs |-> Expected(v.xs[i], t.xs[1])]] ELSE v
    [] OTHER -> v
=============================================================================

------------------------------ MODULE Trace_Module ------------------------------
(***************************************************************************)
(* Trace specification for the emitted module.  One "Module" event = one    *)
(* full pipeline run on the real code (generate .. generate_code), the      *)
(* emitted text parsed/executed, and the loaded classes introspected.       *)
(* TLC evaluates on it the clauses of C01 (emitted level), C03, C04, C10,   *)
(* C11, C12 (two events: flat then nested) and C18.                         *)
(***************************************************************************)
EXTENDS Render, TraceBase

CONSTANT Claim
VARIABLES tid, l, st, verdict, drift, live
vars == <<tid, l, st, verdict, drift, live>>

Events == Traces[tid].events
Ev     == Events[l]

FixModelsN(g) == [i \in DOMAIN g.models |-> [ix |-> g.models[i].ix, t |-> Fix(g.models[i].t), name |-> g.models[i].name,
                                             inc |-> {<<g.models[i].inc[j][1], g.models[i].inc[j][2]>> : j \in DOMAIN g.models[i].inc}]]
NameOf(ms) == [ix \in {ms[i].ix : i \in DOMAIN ms} |-> (CHOOSE m \in ToSet(ms) : m.ix = ix).name]
Opts(ev) == ev.opts
RECURSIVE AllClasses(_)
AllClasses(cs) == cs      \* loaded classes arrive flattened (one record per class, with `parent`)

Ran(ev) == ev.exc = "" /\ ev.parse_exc = "" /\ ev.exec_exc = ""
ModelNamed(ms, name) == {m \in ToSet(ms) : m.name = name}
ClsOf(ev, name) == {c \in ToSet(ev.classes) : c.name = name}

TreeShaped(ms, roots) == \A i \in DOMAIN ms : ms[i].ix \in roots \/ Cardinality({p[1] : p \in ms[i].inc}) = 1
\* ------------------------------------------------------------------ C03
C03Clauses(ev) ==
  LET gen == ev.exc = ""
      ran == Ran(ev)
      ms == IF gen THEN FixModelsN(ev.graph) ELSE <<>>
      names == IF ran THEN ClassNames(ev.mod.classes) ELSE <<>>
      \* the nested layout is claimed only when each non-root model is referenced from exactly one class
      claimed == ev.opts.layout = "flat" \/ (gen /\ TreeShaped(ms, ToSet(ev.rootIx)))
  IN IF ~claimed /\ gen THEN << <<"C03.total", FALSE, TRUE>> >> ELSE
     << <<"C03.total", TRUE, gen>>,
        <<"C03.parse", gen, ~gen \/ ev.parse_exc = "">>,
        <<"C03.exec", gen /\ ev.parse_exc = "", ~(gen /\ ev.parse_exc = "") \/ ev.exec_exc = "">>,
        <<"C03.hints", ran, ~ran \/ \A i \in DOMAIN ev.classes :
              /\ ev.classes[i].hints_exc = ""
              /\ \A j \in DOMAIN ev.classes[i].fields : CanonA(Fix(ev.classes[i].fields[j].ann)).k \notin {"unresolved"}
              /\ \A j \in DOMAIN ev.classes[i].fields : ~HasUnresolved(CanonA(Fix(ev.classes[i].fields[j].ann)))>>,
        <<"C03.names", ran, ~ran \/ IdentsOK(ev.mod.classes)>>,
        <<"C03.unique", ran, ~ran \/ UniqueInScope(ev.mod.classes)>>,
        <<"C03.shadow", ran \/ (gen /\ ev.parse_exc = ""), ~(gen /\ ev.parse_exc = "") \/ NoShadowModule(ev.mod)>>,
        <<"C03.count", ran, ~ran \/ (/\ Len(names) = Len(ms)
                                     /\ ToSet(names) = {ms[i].name : i \in DOMAIN ms})>> >>

\* ------------------------------------------------------------------ C04
C04Clauses(ev) ==
  LET ran == Ran(ev)
      ms == IF ran THEN FixModelsN(ev.graph) ELSE <<>>
      o == Opts(ev)
      nameOf == NameOf(ms)
      E(m) == RenderModel(m, o, ev.labels, nameOf)
      pairs == {<<m, c>> \in ToSet(ms) \X ToSet(IF ran THEN ev.classes ELSE <<>>) : m.name = c.name}
      cmp(f(_)) == \A p \in pairs : Proj(LoadedFields(p[2]), f) = Proj(E(p[1]), f)
  IN << <<"C04.total", TRUE, ran>>,
        <<"C04.classes", ran, ~ran \/ (/\ {c.name : c \in ToSet(ev.classes)} = {ms[i].name : i \in DOMAIN ms}
                                       /\ Len(ev.classes) = Len(ms))>>,
        <<"C04.fieldset", ran, ~ran \/ cmp(LAMBDA f : f.py)>>,
        <<"C04.jsonkey", ran, ~ran \/ cmp(LAMBDA f : <<f.py, f.jk>>)>>,
        <<"C04.ann", ran, ~ran \/ cmp(LAMBDA f : <<f.py, f.ann>>)>>,
        <<"C04.default", ran, ~ran \/ cmp(LAMBDA f : <<f.py, f.dk>>)>> >>

\* ------------------------------------------------------------------ C01 (emitted level)
C01Clauses(ev) ==
  LET ran == Ran(ev) IN
  << <<"C01.total", TRUE, ev.exc = "">>,
     <<"C01.loads", ev.exc = "", ev.exc # "" \/ ran>>,
     <<"C01.parse", ran /\ ev.pyd # <<>>, ~ran \/ \A i \in DOMAIN ev.pyd : ev.pyd[i].ok>> >>

\* ------------------------------------------------------------------ C10
C10Clauses(ev) ==
  LET ran == Ran(ev)
      o == Opts(ev)
      e == FixEnv(ev.env)
      ms == IF ran THEN FixModelsN(ev.graph) ELSE <<>>
      \* string fields of the (single, flat) root model
      root == IF ran THEN CHOOSE m \in ToSet(ms) : m.ix = ev.rootIx[1] ELSE <<>>
      S == FixSeq(ev.roots[1].samples)
      cls == IF ran THEN CHOOSE c \in ToSet(ev.classes) : c.name = root.name ELSE <<>>
      keys == IF ran THEN {root.t.ks[i] : i \in DOMAIN root.t.ks} ELSE {}
      Pos == {<<key, d>> \in keys \X {0, 1, 2} : FieldStringsD(S, key, d) # {}}
      P(p) == {s \in FieldStringsD(S, p[1], p[2]) : DetectStr(s, e).k \in {"lit", "litover"}}
      D(p) == {DetectStr(s, e).n : s \in {x \in FieldStringsD(S, p[1], p[2]) : DetectStr(x, e).k = "pseudo"}}
      annOf(key) == LET fs == {f \in LoadedFields(cls) : f.py = ev.labels[key]} IN
                    IF fs = {} THEN CanonA(AAny) ELSE (CHOOSE f \in fs : TRUE).ann
      lits(p) == LitsInD(annOf(p[1]), p[2])
      anyLit == \E c \in ToSet(ev.classes) : \E f \in LoadedFields(c) : LitsIn(f.ann) # {}
      must(p) == P(p) # {} /\ LitMay(P(p), e, o) /\ Cardinality(D(p)) <= 1
  IN << <<"C10.total", TRUE, ran>>,
        <<"C10.none", ran /\ (o.fw = "attrs" \/ o.maxlit <= 0), ~(ran /\ (o.fw = "attrs" \/ o.maxlit <= 0)) \/ ~anyLit>>,
        <<"C10.may", ran /\ (\E p \in Pos : lits(p) # {}),
          ~ran \/ \A p \in Pos : lits(p) # {} => LitMay(P(p), e, o)>>,
        <<"C10.exact-set", ran /\ (\E p \in Pos : lits(p) # {}),
          ~ran \/ \A p \in Pos : \A L \in lits(p) : L = P(p)>>,
        <<"C10.must", ran /\ (\E p \in Pos : must(p)),
          ~ran \/ \A p \in Pos : must(p) => lits(p) = {P(p)}>> >>

\* ------------------------------------------------------------------ C11
\* keyfacts: key id -> [fold, letter, lead]
InDomain(keys, kf) ==
  /\ \A key \in keys : kf[key].letter /\ kf[key].lead \in {"alpha", "digit"}
  /\ Cardinality({kf[key].fold : key \in keys}) = Cardinality(keys)
C11Clauses(ev) ==
  LET gen == ev.exc = ""
      ran == Ran(ev)
      o == Opts(ev)
      ms == IF gen THEN FixModelsN(ev.graph) ELSE <<>>
      kf == ev.keyfacts
      keysOf(m) == {m.t.ks[i] : i \in {j \in DOMAIN m.t.ks : Kept(m.t.xs[j], o)}}
      dom(m) == InDomain({m.t.ks[i] : i \in DOMAIN m.t.ks}, kf)
      allDom == \A i \in DOMAIN ms : dom(ms[i])
      pairs == IF ran THEN {<<m, c>> \in ToSet(ms) \X ToSet(ev.classes) : m.name = c.name} ELSE {}
      inj(p) == Cardinality(Proj(LoadedFields(p[2]), LAMBDA f : f.py)) = Cardinality(keysOf(p[1]))
                /\ Len(p[2].fields) = Cardinality(keysOf(p[1]))
      rec(p) == (Pydantic(o) \/ o.meta) => Proj(LoadedFields(p[2]), LAMBDA f : f.jk) = keysOf(p[1])
      names == IF ran THEN ClassNames(ev.mod.classes) ELSE <<>>
  IN IF ev.indomain THEN
     \* (C11 does not claim that the module loads - that is C03, over its own key styles; an unloadable module simply
     \*  leaves the clauses below without a field table to judge)
     << \* "valid" names: whatever else may keep the module from executing, the text must at least be Python syntax
        <<"C11.names-parse", gen, ~gen \/ ev.parse_exc = "">>,
        <<"C11.injective", ran, ~ran \/ \A p \in pairs : inj(p)>>,
        <<"C11.recoverable", ran /\ (Pydantic(o) \/ o.meta), ~ran \/ \A p \in pairs : rec(p)>>,
        <<"C11.class-distinct", ran, ~ran \/ Cardinality(ToSet(names)) = Len(names)>>,
        <<"C11.class-vs-import", ran, ~ran \/ ToSet(names) \cap ToSet(ev.mod.imports) = {}>>,
        <<"C11.class-count", ran, ~ran \/ Len(names) = Len(ms)>> >>
     ELSE
     << <<"C11.ood.injective", ran, ~ran \/ \A p \in pairs : inj(p)>>,
        <<"C11.ood.recoverable", ran /\ (Pydantic(o) \/ o.meta), ~ran \/ \A p \in pairs : rec(p)>> >>

\* ------------------------------------------------------------------ C12
ClassTable(ev) == {<<c.name, LoadedFields(c)>> : c \in ToSet(ev.classes)}
C12Clauses(ev, s) ==
  LET ran == Ran(ev)
      ms == IF ran THEN FixModelsN(ev.graph) ELSE <<>>
      names == IF ran THEN [i \in DOMAIN ev.classes |-> ev.classes[i].name] ELSE <<>>
      once == Len(names) = Len(ms) /\ ToSet(names) = {ms[i].name : i \in DOMAIN ms}
      nameOf == NameOf(ms)
      tree == ran /\ TreeShaped(ms, ToSet(ev.rootIx))
      flat == ev.opts.layout = "flat"
  IN << <<"C12.total", TRUE, ev.exc = "">>,
        <<"C12.loads", ev.exc = "", ev.exc # "" \/ ran>>,
        <<IF flat THEN "C12.once.flat" ELSE "C12.once.nested", ran, ~ran \/ once>>,
        <<"C12.root-first", ran /\ flat /\ Len(ev.rootIx) = 1, ~(ran /\ flat /\ Len(ev.rootIx) = 1) \/ names[1] = nameOf[ev.rootIx[1]]>>,
        <<"C12.placement", tree /\ ~flat,
          ~(tree /\ ~flat) \/ \A i \in DOMAIN ev.classes :
               LET c == ev.classes[i]
                   m == CHOOSE m \in ToSet(ms) : m.name = c.name
               IN IF m.ix \in ToSet(ev.rootIx) THEN c.parent = ""
                  ELSE c.parent \in {nameOf[p[1]] : p \in {q \in m.inc : q[1] # ""}}>>,
        <<"C12.same", tree /\ ~flat /\ s.has, ~(tree /\ ~flat /\ s.has) \/ ClassTable(ev) = s.table>> >>

\* ------------------------------------------------------------------ C18
\* constructs: [root, sample, exc, values: [key id -> value node]] ; parsed: [class -> [string id -> canon id]]
ConvLeaf(v, t, parsed) == v
RECURSIVE ExpectedP(_, _, _)
ExpectedP(v, t, parsed) ==
  CASE t.k = "pseudo" -> IF v.k = "str" /\ t.n \in DOMAIN parsed /\ v.n \in DOMAIN parsed[t.n]
                         THEN N("conv", t.n, {parsed[t.n][v.n]}, <<>>, <<>>) ELSE v
    [] t.k = "opt" -> IF v.k = "null" THEN v ELSE ExpectedP(v, t.xs[1], parsed)
    [] t.k = "list" -> IF v.k = "list" THEN [v EXCEPT !.xs = [i \in DOMAIN v.xs |-> ExpectedP(v.xs[i], t.xs[1], parsed)]] ELSE v
    [] t.k = "dict" -> IF v.k = "obj" THEN [v EXCEPT !.xs = [i \in DOMAIN v.xs |-> ExpectedP(v.xs[i], t.xs[1], parsed)]] ELSE v
    [] OTHER -> v
\* attrs without post-init converters: a per-field converter for a bare / Optional pseudo type
FieldConv(t) == t.k = "pseudo" \/ (t.k = "opt" /\ t.xs[1].k = "pseudo")
C18Clauses(ev) ==
  LET ran == Ran(ev)
      o == Opts(ev)
      ms == IF ran THEN FixModelsN(ev.graph) ELSE <<>>
      root(i) == CHOOSE m \in ToSet(ms) : m.ix = ev.rootIx[ev.constructs[i].root]
      okc(i) == ev.constructs[i].exc = ""
      tOf(i, key) == FieldOf(root(i).t, key)
      keys(i) == {root(i).t.ks[j] : j \in DOMAIN root(i).t.ks}
      present(i, key) == key \in DOMAIN ev.constructs[i].orig
      exp(i, key) ==
         LET v == Fix(ev.constructs[i].orig[key]) t == tOf(i, key) IN
         IF o.post THEN (IF HasPath(t) THEN ExpectedP(v, t, ev.parsed) ELSE v)
         ELSE IF o.fw = "attrs" /\ FieldConv(t) THEN ExpectedP(v, t, ev.parsed)
         ELSE v
      conv(i, key) == IF o.post THEN HasPath(tOf(i, key)) ELSE (o.fw = "attrs" /\ FieldConv(tOf(i, key)))
      good(i, key) == Canon(Fix(ev.constructs[i].values[key])) = Canon(exp(i, key))
      known(i, key) == ~o.post /\ o.fw = "attrs" /\ FieldConv(tOf(i, key))
                       /\ (IF tOf(i, key).k = "pseudo" THEN tOf(i, key).n ELSE tOf(i, key).xs[1].n) \notin {"IntString", "FloatString"}
  IN << <<"C18.total", TRUE, ev.exc = "">>,
        <<"C18.loads", ev.exc = "", ev.exc # "" \/ ran>>,
        <<"C18.constructs", ran /\ ev.constructs # <<>>,
          ~ran \/ \A i \in DOMAIN ev.constructs : okc(i) \/ (\E key \in keys(i) : present(i, key) /\ known(i, key))>>,
        \* named in the C18 statement: attrs without post-init converters, per-field converter on a bool/date-like string type
        <<"C18.field-converter.known", ran /\ ev.constructs # <<>>,
          ~ran \/ \A i \in DOMAIN ev.constructs : okc(i) \/ ~(\E key \in keys(i) : present(i, key) /\ known(i, key))>>,
        <<"C18.converted", ran /\ (\E i \in DOMAIN ev.constructs : okc(i) /\ \E key \in keys(i) : present(i, key) /\ conv(i, key)),
          ~ran \/ \A i \in DOMAIN ev.constructs : okc(i) =>
                    \A key \in keys(i) : (present(i, key) /\ conv(i, key) /\ ~known(i, key)) => good(i, key)>>,
        <<"C18.untouched", ran /\ (\E i \in DOMAIN ev.constructs : okc(i)),
          ~ran \/ \A i \in DOMAIN ev.constructs : okc(i) =>
                    \A key \in keys(i) : (present(i, key) /\ ~conv(i, key)) => good(i, key)>> >>

Clauses(ev, s) ==
  IF ev.ev # "Module" THEN <<>> ELSE
  \* model names that are equal after case/punctuation folding (e.g. keys `Fields` and `field_` both give `Field`) collide as
  \* class names: the folded-equal finding listed under C11; the other properties do not range over such inputs
  IF ~ev.namesdomain /\ Claim # "C11" THEN <<>> ELSE
  \* a call with an explicit types_style override asked for another literal style: not judged by C10 / C04 (it is there to
  \* show that none of its options leaks into later calls)
  IF ev.opts.styled /\ Claim \in {"C10", "C04"} THEN <<>> ELSE
  CASE Claim = "C01" -> C01Clauses(ev)
    [] Claim = "C03" -> C03Clauses(ev)
    [] Claim = "C04" -> C04Clauses(ev)
    [] Claim = "C10" -> C10Clauses(ev)
    [] Claim = "C11" -> C11Clauses(ev)
    [] Claim = "C12" -> C12Clauses(ev, s)
    [] Claim = "C18" -> C18Clauses(ev)
    [] OTHER -> <<>>
NextSt(ev, s) == IF ev.ev = "Module" /\ Ran(ev) /\ ~s.has /\ Claim = "C12" THEN [has |-> TRUE, table |-> ClassTable(ev)] ELSE s

Init == /\ tid \in DOMAIN Traces /\ l = 1 /\ st = [has |-> FALSE, table |-> {}]
        /\ verdict = "ok" /\ drift = 0 /\ live = {}
Step == /\ verdict = "ok" /\ l # 0 /\ l <= Len(Events)
        /\ LET cs == Clauses(Ev, st)
               f  == FirstFailing(cs) IN
           /\ verdict' = f
           /\ live' = live \cup LiveOf(cs)
           /\ drift' = drift
           /\ st' = NextSt(Ev, st)
           /\ l' = IF f = "ok" THEN l + 1 ELSE l
           /\ UNCHANGED tid
Finish == /\ l # 0 /\ (verdict # "ok" \/ l > Len(Events))
          /\ PrintT(<<"VERDICT", Traces[tid].id, verdict, drift, live, l>>)
          /\ l' = 0 /\ UNCHANGED <<tid, st, verdict, drift, live>>
Next == Step \/ Finish
TraceSpec == Init /\ [][Next]_vars
=============================================================================

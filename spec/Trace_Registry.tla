----------------------------- MODULE Trace_Registry -----------------------------
(***************************************************************************)
(* Trace specification for the registry stage.  One trace = one or more     *)
(* pipelines (Begin ... MergeModels Reoptimize) recorded from the real      *)
(* ModelRegistry.  Events:                                                  *)
(*   Begin                              resets the pipeline state           *)
(*   Root      samples, env, root       a root model's samples and index    *)
(*   Register  meta, before, after      process_meta_data of one metadata   *)
(*   MergeModels policy, before, after, replaces, roots, inc | exc          *)
(*   Reoptimize after | exc             optimize_type on every model again  *)
(* The state keeps what later events are judged against (samples per root,  *)
(* the graph before merging, the first pipeline's canonical graph).         *)
(***************************************************************************)
EXTENDS Registry, TraceBase

CONSTANT Claim
VARIABLES tid, l, st, verdict, drift, live
vars == <<tid, l, st, verdict, drift, live>>

Events == Traces[tid].events
Ev     == Events[l]

FixModels(g) == [i \in DOMAIN g.models |-> [ix |-> g.models[i].ix, t |-> Fix(g.models[i].t)]]
FixInc(g) == [ix \in {g.models[i].ix : i \in DOMAIN g.models} |->
                LET m == CHOOSE m \in ToSet(g.models) : m.ix = ix
                IN {<<m.inc[i][1], m.inc[i][2]>> : i \in DOMAIN m.inc}]
FixPolicy(p) == [i \in DOMAIN p |-> [kind |-> p[i].kind, num |-> p[i].num,
                                      pairs |-> {{p[i].pairs[j][1], p[i].pairs[j][2]} : j \in DOMAIN p[i].pairs}]]
FixReplaces(r) == {[new |-> r[i].new, olds |-> ToSet(r[i].olds)] : i \in DOMAIN r}

NoSt == [roots |-> <<>>, hasFirst |-> FALSE, first |-> {}, last |-> <<>>, env |-> <<>>]

\* all occurrences of sample values along the graph, over every root
OccAll(roots, rootIx, e, G) ==
  FlattenSeq([i \in DOMAIN roots |-> WalkAll(TPtr(rootIx[i]), FixSeq(roots[i].samples), e, G)])

MergeClauses(ev, s) ==
  LET ok     == ev.exc = ""
      before == FixModels(ev.before)
      after  == IF ok THEN FixModels(ev.after) ELSE <<>>
      pol    == FixPolicy(ev.policy)
      rep    == IF ok THEN FixReplaces(ev.replaces) ELSE {}
      G      == IF ok THEN GraphOf(after) ELSE <<>>
      e      == FixEnv(ev.env)
      rootIx == ev.roots
      occ    == IF ok THEN OccAll(s.roots, rootIx, e, G) ELSE <<>>
      merged == rep # {}
  IN CASE Claim = "C05" ->
          << <<"C05.total", TRUE, ok>>,
             <<"C05.replaces", ok, ~ok \/ ReplacesOK(before, after, rep)>>,
             <<"C05.partition", ok /\ Len(before) > 1, ~ok \/ PartitionOK(before, pol, rep)>>,
             <<"C05.fields-union", ok /\ merged, ~ok \/ FieldsUnionOK(before, after, rep)>>,
             <<"C05.untouched", ok /\ Len(after) > Cardinality(rep), ~ok \/ UntouchedOK(before, after, rep)>>,
             <<"C05.refs", ok, ~ok \/ RefsRegistered(after, ToSet(rootIx))>>,
             <<"C05.pointers", ok, ~ok \/ PointersOK(after, ToSet(rootIx), FixInc(ev.after))>> >>
       [] Claim = "C01" ->
          << <<"C01.total", TRUE, ok>>,
             <<"C01.sound.graph", ok, ~ok \/ \A i \in DOMAIN s.roots :
                   FirstRejected(FixSeq(s.roots[i].samples), TPtr(rootIx[i]), e, G) = 0>> >>
       [] Claim = "C02" ->
          << <<"C02.tight.graph", ok, ~ok \/ LooseModels(G, occ, e) = {}>> >>
       [] Claim = "C08" ->
          << <<"C08.total", TRUE, ok>>,
             <<"C08.nf.graph", ok, ~ok \/ NFGraph(G)>> >>
       [] Claim = "C07" ->
          << <<"C07.total", TRUE, ok>>,
             <<"C07.perm.graph", ok /\ s.hasFirst, ~(ok /\ s.hasFirst) \/ CanonGraph(after) = s.first>> >>
       [] Claim = "C13" ->
          << <<"C13.total", TRUE, ok>>,
             <<"C13.iff.graph", ok /\ (\E i \in DOMAIN occ : occ[i].v.k = "obj" /\ occ[i].via # "#top"),
               ~ok \/ DictIff(occ, e, G)>>,
             <<"C13.value-type", ok, ~ok \/ \A i \in DOMAIN s.roots :
                   FirstRejected(FixSeq(s.roots[i].samples), TPtr(rootIx[i]), e, G) = 0>> >>
       [] OTHER -> <<>>

ReoptClauses(ev, s) ==
  LET ok == ev.exc = "" IN
  CASE Claim = "C08" ->
          << <<"C08.total.again", TRUE, ok>>,
             <<"C08.idem.graph", ok, ~ok \/ [i \in DOMAIN ev.after.models |-> Canon(Fix(ev.after.models[i].t))]
                                            = [i \in DOMAIN s.last |-> Canon(s.last[i].t)]>> >>
    [] OTHER -> <<>>

\* ---- the layouts of the real registry graph (models/structure.py), judged and followed by Layout.tla
L == INSTANCE Layout
LayMsOf(ev) == [i \in DOMAIN ev.graph.models |->
                  [ix |-> ev.graph.models[i].ix,
                   inc |-> {<<ev.graph.models[i].inc[j][1], IF ev.graph.models[i].inc[j][1] = "" THEN "" ELSE "f">> : j \in DOMAIN ev.graph.models[i].inc}]]
ComposeClauses(ev) ==
  LET ok == ev.exc = ""
      ms == LayMsOf(ev)
      on == IF ok THEN [roots |-> ev.nested.roots, nested |-> [ix \in L!Ix(ms) |-> ev.nested.children[ix]]] ELSE <<>>
      of == [list |-> ev.flat]
  IN IF Claim # "C12" THEN <<>> ELSE
     << <<"C12.compose-total", TRUE, ok>>,
        <<"C12.once.flat", ok, ~ok \/ L!EachOnceFlat(ms, of)>>,
        <<"C12.once.nested", ok, ~ok \/ L!EachOnceNested(ms, on)>>,
        <<"C12.root-first", ok /\ L!Tree(ms), ~(ok /\ L!Tree(ms)) \/ L!RootFirst(ms, of)>>,
        <<"C12.placement", ok /\ L!Tree(ms), ~(ok /\ L!Tree(ms)) \/ L!PlacedInReferrer(ms, on)>> >>
ComposeDrift(ev) ==
  ev.exc = "" /\ Len(ev.graph.models) <= 14 /\
  LET ms == LayMsOf(ev) n == L!Nested(ms) f == L!Flat(ms) IN
  \/ f.list # ev.flat \/ n.roots # ev.nested.roots \/ \E ix \in L!Ix(ms) : n.nested[ix] # ev.nested.children[ix]

Clauses(ev, s) ==
  CASE ev.ev = "Compose" -> ComposeClauses(ev)
    [] ev.ev = "MergeModels" -> MergeClauses(ev, s)
    [] ev.ev = "Reoptimize"  -> ReoptClauses(ev, s)
    [] OTHER -> <<>>

\* ---- algorithm layer (drift only)
SameModels(a, b) == Len(a) = Len(b) /\ \A i \in DOMAIN a : a[i].ix = b[i].ix /\ Canon(a[i].t) = Canon(b[i].t)
Drifts(ev) ==
  CASE ev.ev = "Register" /\ ev.exc = "" ->
         LET r == Register(Fix(ev.meta), [next |-> ev.before.next, models |-> FixModels(ev.before)])
         IN ~SameModels(r.st.models, FixModels(ev.after)) \/ r.root # ev.root
    \* the faithful closure loop grows quadratically per pass: the algorithm layer follows the code only on
    \* instances of bounded size (drift is information, never a verdict)
    [] ev.ev = "MergeModels" /\ ev.exc = "" /\ Len(ev.before.models) <= 20 ->
         LET r == MergeModels([next |-> ev.before.next, models |-> FixModels(ev.before)],
                              FixPolicy(ev.policy), FixEnv(ev.env))
         IN ~SameModels(r.models, FixModels(ev.after))
    [] ev.ev = "Compose" -> ComposeDrift(ev)
    [] OTHER -> FALSE

NextSt(ev, s) ==
  CASE ev.ev = "Begin" -> [NoSt EXCEPT !.hasFirst = s.hasFirst, !.first = s.first]
    [] ev.ev = "Root"  -> [s EXCEPT !.roots = Append(s.roots, [samples |-> ev.samples])]
    \* the faithful closure loop grows quadratically per pass: the algorithm layer follows the code only on
    \* instances of bounded size (drift is information, never a verdict)
    [] ev.ev = "MergeModels" /\ ev.exc = "" ->
         [s EXCEPT !.last = FixModels(ev.after),
                   !.hasFirst = TRUE,
                   !.first = IF s.hasFirst THEN s.first ELSE CanonGraph(FixModels(ev.after))]
    [] OTHER -> s

Init == /\ tid \in DOMAIN Traces /\ l = 1 /\ st = NoSt
        /\ verdict = "ok" /\ drift = 0 /\ live = {}
Step == /\ verdict = "ok" /\ l # 0 /\ l <= Len(Events)
        /\ LET cs == Clauses(Ev, st)
               f  == FirstFailing(cs) IN
           /\ verdict' = f
           /\ live' = live \cup LiveOf(cs)
           /\ drift' = IF drift = 0 /\ Drifts(Ev) THEN l ELSE drift
           /\ st' = NextSt(Ev, st)
           /\ l' = IF f = "ok" THEN l + 1 ELSE l
           /\ UNCHANGED tid
Finish == /\ l # 0 /\ (verdict # "ok" \/ l > Len(Events))
          /\ PrintT(<<"VERDICT", Traces[tid].id, verdict, drift, live, l>>)
          /\ l' = 0 /\ UNCHANGED <<tid, st, verdict, drift, live>>
Next == Step \/ Finish
TraceSpec == Init /\ [][Next]_vars
=============================================================================

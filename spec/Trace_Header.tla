------------------------------ MODULE Trace_Header ------------------------------
(***************************************************************************)
(* Trace specification for C19.  Events:                                    *)
(*   Header   emitted (character classes of the real header after r"""),    *)
(*            cmd (classes of the command text), ast_ok, first_is_header,   *)
(*            rest_equal                                                    *)
(*   Preamble count, after_imports, before_class, ast_ok                    *)
(*   Blank    same (output with a blank preamble = output without)          *)
(* TLC runs the lexer model of Header.tla on the OBSERVED header; the real  *)
(* parser (ast) is the ground truth; a disagreement between the two is      *)
(* reported as drift (the lexer model would be wrong), never as a verdict.  *)
(***************************************************************************)
EXTENDS Header, TraceBase

CONSTANT Claim
VARIABLES tid, l, verdict, drift, live
vars == <<tid, l, verdict, drift, live>>
Events == Traces[tid].events
Ev     == Events[l]

Clauses(ev) ==
  IF Claim # "C19" THEN <<>> ELSE
  CASE ev.ev = "Header" ->
         << <<"C19.total", TRUE, ev.status = 0>>,
            <<"C19.lex", ev.status = 0, ev.status # 0 \/ (ev.emitted # <<>> /\ LexEnd(ev.emitted) = Len(ev.emitted))>>,
            <<"C19.valid", ev.status = 0, ev.status # 0 \/ ev.ast_ok>>,
            <<"C19.first-stmt", ev.status = 0 /\ ev.ast_ok, ~(ev.status = 0 /\ ev.ast_ok) \/ ev.first_is_header>>,
            <<"C19.rest", ev.status = 0 /\ ev.ast_ok, ~(ev.status = 0 /\ ev.ast_ok) \/ ev.rest_equal>> >>
    [] ev.ev = "Preamble" ->
         << <<"C19.preamble-valid", ev.status = 0, ev.status # 0 \/ ev.ast_ok>>,
            <<"C19.preamble-once", ev.status = 0, ev.status # 0 \/ ev.count = 1>>,
            <<"C19.preamble-place", ev.status = 0 /\ ev.count = 1, ~(ev.status = 0 /\ ev.count = 1) \/ (ev.after_imports /\ ev.before_class)>> >>
    [] ev.ev = "Blank" ->
         << <<"C19.blank-noop", ev.status = 0, ev.status # 0 \/ ev.same>> >>
    [] OTHER -> <<>>
\* the lexer model's prediction for the escaped command text vs. what ast said about the real output
Drifts(ev) == ev.ev = "Header" /\ ev.status = 0 /\ ev.emitted # <<>> /\ ((LexEnd(ev.emitted) = Len(ev.emitted)) # ev.ast_ok)

Init == /\ tid \in DOMAIN Traces /\ l = 1 /\ verdict = "ok" /\ drift = 0 /\ live = {}
Step == /\ verdict = "ok" /\ l # 0 /\ l <= Len(Events)
        /\ LET cs == Clauses(Ev) f == FirstFailing(cs) IN
           /\ verdict' = f /\ live' = live \cup LiveOf(cs)
           /\ drift' = IF drift = 0 /\ Drifts(Ev) THEN l ELSE drift
           /\ l' = IF f = "ok" THEN l + 1 ELSE l
           /\ UNCHANGED tid
Finish == /\ l # 0 /\ (verdict # "ok" \/ l > Len(Events))
          /\ PrintT(<<"VERDICT", Traces[tid].id, verdict, drift, live, l>>)
          /\ l' = 0 /\ UNCHANGED <<tid, verdict, drift, live>>
Next == Step \/ Finish
TraceSpec == Init /\ [][Next]_vars
=============================================================================

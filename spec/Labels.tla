--------------------------------- MODULE Labels ---------------------------------
(***************************************************************************)
(* ALGORITHM LAYER for models/base.py prepare_label (ASCII part):           *)
(*    s = re.sub(r"\W", "", s)                                              *)
(*    if s[0] is a digit: s = ones[digit] + "_" + s[1:]                     *)
(*    if to_snake_case: s = inflection.underscore(s)                        *)
(*    if s in blacklist_words: s += "_"                                     *)
(* over keys that are sequences of characters from a small alphabet.        *)
(* inflection.underscore:  ([A-Z]+)([A-Z][a-z]) -> \1_\2 ;                  *)
(*                         ([a-z\d])([A-Z]) -> \1_\2 ; "-" -> "_" ; lower() *)
(* Character classes are decided by membership in the constant sets below.  *)
(*                                                                          *)
(* PROPERTY LAYER (C11 at design level):                                    *)
(*   Fold(k)       lower-case, non-alphanumerics removed                    *)
(*   ValidIdent(l) non-empty, starts with a letter or underscore, only      *)
(*                 word characters                                          *)
(*   Injective     Label(k1) = Label(k2)  =>  Fold(k1) = Fold(k2)           *)
(***************************************************************************)
EXTENDS Naturals, Sequences, FiniteSets, SequencesExt, TLC

Lower == {"a", "b", "i", "f", "z", "e", "r", "o", "n"}      \* (z e r o n: the letters of the digit words "zero" / "one")
Upper == {"A", "B", "I", "F", "Z", "O"}
Digit == {"0", "1"}
Under == {"_"}
Punct == {"-", ".", " "}
ToLower(c) == CASE c = "A" -> "a" [] c = "B" -> "b" [] c = "I" -> "i" [] c = "F" -> "f" [] c = "Z" -> "z" [] c = "O" -> "o" [] OTHER -> c
IsWord(c) == c \in Lower \cup Upper \cup Digit \cup Under
Ones == [d \in Digit |-> IF d = "0" THEN <<"z", "e", "r", "o">> ELSE <<"o", "n", "e">>]
\* the reserved words expressible over this alphabet (keywords / builtins: if, abs, bin, ...; here: "if", "a"? no)
Blacklist == {<<"i", "f">>, <<"a", "b", "s">>}

StripNonWord(s) == SelectSeq(s, IsWord)
DigitRule(s) == IF s # <<>> /\ s[1] \in Digit THEN Ones[s[1]] \o <<"_">> \o Tail(s) ELSE s
\* inflection.underscore, first rule: a run of capitals followed by Capital+lower gets "_" before the last capital
RECURSIVE U1(_, _)
U1(s, i) == IF i > Len(s) THEN <<>>
            ELSE IF i >= 2 /\ i + 1 <= Len(s) /\ s[i - 1] \in Upper /\ s[i] \in Upper /\ s[i + 1] \in Lower
                 THEN <<"_", s[i]>> \o U1(s, i + 1)
                 ELSE <<s[i]>> \o U1(s, i + 1)
\* second rule: lower-or-digit followed by Capital gets "_" between them
RECURSIVE U2(_, _)
U2(s, i) == IF i > Len(s) THEN <<>>
            ELSE IF i >= 2 /\ s[i] \in Upper /\ s[i - 1] \in Lower \cup Digit
                 THEN <<"_", s[i]>> \o U2(s, i + 1)
                 ELSE <<s[i]>> \o U2(s, i + 1)
Underscore(s) == LET a == U1(s, 1) b == U2(a, 1) IN [i \in DOMAIN b |-> ToLower(IF b[i] = "-" THEN "_" ELSE b[i])]
Suffix(s) == IF s \in Blacklist THEN Append(s, "_") ELSE s
FieldLabel(k) == Suffix(Underscore(DigitRule(StripNonWord(k))))
ClassLabel(k) == Suffix(DigitRule(StripNonWord(k)))
\* GenericModelCodeGenerator.convert_class_name: the class label with its leading underscores dropped and its first letter in upper
\* case (so that it differs from the field label of the same key: in the nested layout both live in one class body); the
\* reserved-word suffix is applied again to the new spelling.  (The alphabet here is cased: the '_' suffix of caseless scripts
\* does not arise.)
ToUpper(c) == CASE c = "a" -> "A" [] c = "b" -> "B" [] c = "i" -> "I" [] c = "f" -> "F" [] c = "z" -> "Z" [] c = "o" -> "O" [] OTHER -> c
RECURSIVE LStrip(_)
LStrip(s) == IF s # <<>> /\ s[1] = "_" THEN LStrip(Tail(s)) ELSE s
ClassName(k) ==
  LET label == ClassLabel(k)
      st == LStrip(label)
  IN IF st # <<>> /\ ToUpper(st[1]) # st[1] THEN Suffix(<<ToUpper(st[1])>> \o Tail(st)) ELSE label

Fold(k) == LET w == SelectSeq(k, LAMBDA c : c \in Lower \cup Upper \cup Digit) IN [i \in DOMAIN w |-> ToLower(w[i])]
HasLetter(k) == \E i \in DOMAIN k : k[i] \in Lower \cup Upper
LeadsWithLetter(k) == LET w == StripNonWord(k) IN w # <<>> /\ w[1] \in Lower \cup Upper
ValidIdent(l) == l # <<>> /\ l[1] \in Lower \cup Upper \cup Under /\ \A i \in DOMAIN l : IsWord(l[i])
=============================================================================

------------------------------- MODULE StrTypes -------------------------------
(***************************************************************************)
(* The string pseudo-type registry (dynamic_typing/string_serializable.py,  *)
(* string_datetime.register_datetime_classes, cli --disable-str-...).       *)
(*                                                                          *)
(* Registry state:  [types: sequence of class names (registration order),   *)
(*                   repl : set of <<from, to>>]                            *)
(* ALGORITHM LAYER  RegAdd, RegRemove, RegRemoveByName, RegDatetime,        *)
(*                  DetectStr (JsonTypes), Resolve (Infer)                  *)
(* PROPERTY LAYER   FirstMatch, OnlyIfAccepts, Covers / ResolveSound,       *)
(*                  RoundTrip                                               *)
(* The parsers themselves are environment: acc = [string -> set of class    *)
(* names accepting it], logged from the real to_internal_value.             *)
(***************************************************************************)
EXTENDS Infer

ActualName == [IntString |-> "int", FloatString |-> "float", BooleanString |-> "bool",
               IsoDateString |-> "date", IsoTimeString |-> "time", IsoDatetimeString |-> "datetime"]
AllClasses == DOMAIN ActualName

DefaultReg == [types |-> <<"IntString", "FloatString", "BooleanString">>,
               repl  |-> {<<"IntString", "FloatString">>}]
RegAdd(r, cls, replaces) == [types |-> Append(r.types, cls),
                             repl  |-> r.repl \cup {<<x, cls>> : x \in replaces}]
RegRemove(r, cls) == [types |-> SelectSeq(r.types, LAMBDA x : x # cls),     \* list.remove: first occurrence; names are unique
                      repl  |-> {p \in r.repl : p[1] # cls /\ p[2] # cls}]
\* remove_by_name: every class whose own name or whose actual type's name equals `name`
RECURSIVE RemoveAll(_, _)
RemoveAll(r, S) == IF S = {} THEN r ELSE LET c == CHOOSE c \in S : TRUE IN RemoveAll(RegRemove(r, c), S \ {c})
RegRemoveByName(r, name) ==
  RemoveAll(r, {c \in ToSet(r.types) : c = name \/ (c \in AllClasses /\ ActualName[c] = name)})
RegDatetime(r) == RegAdd(RegAdd(RegAdd(r, "IsoDateString", {}), "IsoTimeString", {}), "IsoDatetimeString", {})

EnvOf(r, acc) == [reg |-> r.types, repl |-> r.repl, acc |-> acc, long |-> {}, dkf |-> {}, ndkr |-> 0, dkrm |-> <<>>]

\* ---- property layer
\* the strings of the corpus a class accepts
AcceptSet(c, acc) == {s \in DOMAIN acc : c \in acc[s]}
Covers(t, S, acc) == \A m \in S : AcceptSet(m, acc) \subseteq AcceptSet(t, acc)
\* a set of pseudo-types may collapse to ONE type only if that type accepts every string any member accepts
ResolveSound(S, R, acc) == Cardinality(R) = 1 => Covers(CHOOSE x \in R : TRUE, S, acc)
\* detection: first registered type that accepts, and only a type that accepts; disabled types never
FirstMatch(s, detected, r, acc) ==
  LET idx == {i \in DOMAIN r.types : r.types[i] \in acc[s]}
  IN IF idx = {} THEN detected = "" ELSE detected = r.types[Min(idx)]
\* the name detection must give: the first registered acceptor, "" if none
FirstMatchName(s, r, acc) ==
  LET idx == {i \in DOMAIN r.types : r.types[i] \in acc[s]}
  IN IF idx = {} THEN "" ELSE r.types[Min(idx)]
OnlyIfAccepts(s, detected, acc) == detected = "" \/ detected \in acc[s]
NeverDisabled(detected, r) == detected = "" \/ detected \in ToSet(r.types)
=============================================================================

------------------------------- MODULE StrTypes -------------------------------
(***************************************************************************)
(* The string pseudo-type registry (dynamic_typing/string_serializable.py,  *)
(* string_datetime.register_datetime_classes, cli --disable-str-...).       *)
(*                                                                          *)
(* Registry state:  [types: sequence of class names (registration order),   *)
(*                   repl : set of <<from, to>>]                            *)
(* ALGORITHM LAYER  RegAdd, RegRemove, RegRemoveByName, RegDatetime,        *)
(*                  DetectStr (JsonTypes), Resolve (Infer)                  *)
(* PROPERTY LAYER   FirstMatch, OnlyIfAccepts, Covers / ResolveSound,       *)
(*                  RoundTrip                                               *)
(* The parsers themselves are environment: acc = [string -> set of class    *)
(* names accepting it], logged from the real to_internal_value.             *)
(***************************************************************************)
EXTENDS Infer

ActualName == [IntString |-> "int", FloatString |-> "float", BooleanString |-> "bool",
               IsoDateString |-> "date", IsoTimeString |-> "time", IsoDatetimeString |-> "datetime"]
AllClasses == DOMAIN ActualName

DefaultReg == [types |-> <<"IntString", "FloatString", "BooleanString">>,
               repl  |-> {<<"IntString", "FloatString">>}]
\* Idempotent = TRUE: registering a class that is registered already changes nothing but the replacement pairs (the repaired code);
\* FALSE: the class is appended once more (the code as it was: MC_StrTypes then violates Unique and NeverDisabled after a removal)
RegAddW(r, cls, replaces, idempotent) ==
  [types |-> IF idempotent /\ cls \in ToSet(r.types) THEN r.types ELSE Append(r.types, cls),
   repl  |-> r.repl \cup {<<x, cls>> : x \in replaces}]
RegAdd(r, cls, replaces) == RegAddW(r, cls, replaces, TRUE)
\* list.remove: the FIRST occurrence only (a class registered twice stays registered once)
RegRemove(r, cls) ==
  LET idx == {i \in DOMAIN r.types : r.types[i] = cls}
      first == IF idx = {} THEN 0 ELSE CHOOSE i \in idx : \A j \in idx : i <= j
  IN [types |-> IF first = 0 THEN r.types ELSE SubSeq(r.types, 1, first - 1) \o SubSeq(r.types, first + 1, Len(r.types)),
      repl  |-> {p \in r.repl : p[1] # cls /\ p[2] # cls}]
\* remove_by_name: every class whose own name or whose actual type's name equals `name`
RECURSIVE RemoveAll(_, _)
RemoveAll(r, S) == IF S = {} THEN r ELSE LET c == CHOOSE c \in S : TRUE IN RemoveAll(RegRemove(r, c), S \ {c})
RegRemoveByName(r, name) ==
  RemoveAll(r, {c \in ToSet(r.types) : c = name \/ (c \in AllClasses /\ ActualName[c] = name)})
RegDatetimeW(r, idem) == RegAddW(RegAddW(RegAddW(r, "IsoDateString", {}, idem), "IsoTimeString", {}, idem), "IsoDatetimeString", {}, idem)
RegDatetime(r) == RegDatetimeW(r, TRUE)

EnvOf(r, acc) == [reg |-> r.types, repl |-> r.repl, acc |-> acc, long |-> {}, dkf |-> {}, ndkr |-> 0, dkrm |-> <<>>]

\* ---- property layer
\* the strings of the corpus a class accepts
AcceptSet(c, acc) == {s \in DOMAIN acc : c \in acc[s]}
Covers(t, S, acc) == \A m \in S : AcceptSet(m, acc) \subseteq AcceptSet(t, acc)
\* a set of pseudo-types may collapse to ONE type only if that type accepts every string any member accepts
ResolveSound(S, R, acc) == Cardinality(R) = 1 => Covers(CHOOSE x \in R : TRUE, S, acc)
\* detection: first registered type that accepts, and only a type that accepts; disabled types never
FirstMatch(s, detected, r, acc) ==
  LET idx == {i \in DOMAIN r.types : r.types[i] \in acc[s]}
  IN IF idx = {} THEN detected = "" ELSE detected = r.types[Min(idx)]
\* the name detection must give: the first registered acceptor, "" if none
FirstMatchName(s, r, acc) ==
  LET idx == {i \in DOMAIN r.types : r.types[i] \in acc[s]}
  IN IF idx = {} THEN "" ELSE r.types[Min(idx)]
OnlyIfAccepts(s, detected, acc) == detected = "" \/ detected \in acc[s]
NeverDisabled(detected, r) == detected = "" \/ detected \in ToSet(r.types)
=============================================================================

-------------------------------- MODULE Infer --------------------------------
(***************************************************************************)
(* ALGORITHM LAYER for json_to_models/generator.py and                      *)
(* dynamic_typing/complex.py (DUnion constructor), string_serializable.py   *)
(* (resolve).  One operator per function of the code, branch for branch:    *)
(*                                                                          *)
(*   Detect        MetadataGenerator._detect_type                           *)
(*   Convert       MetadataGenerator._convert                               *)
(*   DUnionCtor    DUnion.__init__  (dedupe, nested-union flattening,       *)
(*                 literal accumulation / overflow to str)                  *)
(*   MergeField /  MetadataGenerator.merge_field_sets (one sample at a      *)
(*   MergeStep     time; `first` flag)                                      *)
(*   ResolveLoop   StringSerializableRegistry.resolve                       *)
(*   Optimize /    MetadataGenerator.optimize_type / _optimize_union        *)
(*   OptUnion                                                               *)
(*                                                                          *)
(* Union member order is not modelled (members are a set laid out with      *)
(* SetToSeq); every comparison with the implementation goes through Canon.  *)
(* Lines marked (code) transcribe deliberate oddities of the implementation.*)
(***************************************************************************)
EXTENDS JsonTypes

MaxLiterals == 15      \* StringLiteral.MAX_LITERALS

\* ------------------------------------------------------------ DUnion.__init__
RECURSIVE Flat(_)
Flat(S) == UNION { IF t.k = "union" THEN Flat(Members(t)) ELSE {t} : t \in S }

DUnionCtor(S) ==
  LET F       == Flat(S)
      lits    == {t \in F : t.k = "lit"}
      over    == (TStr \in F) \/ (TLitOver \in F)
      rest    == {t \in F : t.k \notin {"lit", "litover"}}
      allLits == UNION {t.ls : t \in lits}
      tooMany == Cardinality(allLits) > MaxLiterals
  IN  IF lits = {} /\ TLitOver \notin F THEN TUnion(rest)
      ELSE IF over \/ tooMany THEN TUnion(rest \cup {TStr})
      ELSE IF allLits = {} THEN TUnion(rest)            \* (code) only empty literal sets: nothing is appended
      ELSE TUnion(rest \cup {TLit(allLits)})

Unwrap1(u) == IF Len(u.xs) = 1 THEN u.xs[1] ELSE u

\* ------------------------------------------------------------- _detect_type
RECURSIVE Detect(_, _, _)
RECURSIVE Convert(_, _)
\* convertDict = FALSE when the value is the direct value of a field named in dict_keys_fields
Detect(v, convertDict, e) ==
  CASE v.k = "null"  -> TNull
    [] v.k = "int"   -> TInt
    [] v.k = "float" -> TFloat
    [] v.k = "bool"  -> TBool
    [] v.k = "str"   -> DetectStr(v.n, e)
    [] v.k = "list"  ->
         IF v.xs = <<>> THEN TList(TUnknown)
         ELSE IF Len(v.xs) = 1 THEN TList(Detect(v.xs[1], TRUE, e))
         ELSE TList(Unwrap1(DUnionCtor({Detect(v.xs[i], TRUE, e) : i \in DOMAIN v.xs})))
    [] v.k = "obj"   ->
         IF v.xs = <<>> THEN TDict(TUnknown)
         ELSE LET allMatch == \E r \in 1..e.ndkr : \A i \in DOMAIN v.ks :
                                 (v.ks[i] \in DOMAIN e.dkrm /\ r \in e.dkrm[v.ks[i]])
              IN IF convertDict /\ ~allMatch THEN Convert(v, e)
                 ELSE IF Len(v.xs) = 1 THEN TDict(Detect(v.xs[1], TRUE, e))
                 ELSE TDict(Unwrap1(DUnionCtor({Detect(v.xs[i], TRUE, e) : i \in DOMAIN v.xs})))

Convert(v, e) == TObj(v.ks, [i \in DOMAIN v.xs |-> Detect(v.xs[i], v.ks[i] \notin e.dkf, e)])

\* --------------------------------------------------------- merge_field_sets
MergeField(orig, new) ==
  IF orig.k = "opt" THEN
     IF TEq(orig, new) \/ TEq(orig.xs[1], new) THEN orig
     ELSE TOpt(Unwrap1(DUnionCtor(Parts(new) \cup Parts(orig.xs[1]))))
  ELSE
     IF TEq(orig, new) THEN orig
     ELSE IF new.k = "opt" /\ TEq(orig, new.xs[1]) THEN TOpt(orig)   \* required T meets Optional[T]
     ELSE Unwrap1(DUnionCtor(Parts(new) \cup Parts(orig)))

\* one iteration of the `for model in field_sets` loop
MergeStep(acc, m, first) ==
  LET keysNew == SelectSeq(m.ks, LAMBDA key : ~HasKey(acc, key))
      ks2 == acc.ks \o keysNew
      val(key) ==
        IF HasKey(acc, key) THEN
           IF HasKey(m, key) THEN MergeField(FieldOf(acc, key), FieldOf(m, key))
           ELSE LET o == FieldOf(acc, key) IN IF o.k = "opt" THEN o ELSE TOpt(o)     \* fields_diff
        ELSE LET f == FieldOf(m, key) IN IF first \/ f.k = "opt" THEN f ELSE TOpt(f)   \* new field
  IN TObj(ks2, [i \in DOMAIN ks2 |-> val(ks2[i])])

RECURSIVE MergeAll(_, _, _)
\* (the LET + equality forces TLC to evaluate each step once instead of passing a growing lazy expression down)
MergeAll(acc, ms, first) ==
  IF ms = <<>> THEN acc
  ELSE LET r == MergeStep(acc, Head(ms), first) IN IF r = r THEN MergeAll(r, Tail(ms), FALSE) ELSE r
MergeFieldSets(ms) == MergeAll(TObj(<<>>, <<>>), ms, TRUE)

\* ------------------------------------------------------------------ resolve
RECURSIVE ResolveLoop(_, _, _)
\* fuel bounds the loop: a cyclic `replaces` relation makes the real loop spin for ever
ResolveLoop(types, repl, fuel) ==
  LET pairs    == {q \in types \X types : q[1] # q[2] /\ q \in repl}
      filtered == {p[2] : p \in pairs}
      replaced == {p[1] : p \in pairs}
  IN IF pairs = {} \/ fuel = 0 THEN types
     ELSE ResolveLoop(filtered \cup (types \ replaced), repl, fuel - 1)
Resolve(types, repl) == ResolveLoop(types, repl, Cardinality(types) + 1)

\* ------------------------------------------------- optimize_type / _optimize_union
RECURSIVE Optimize(_, _)
RECURSIVE OptUnion(_, _)
Optimize(t, e) ==
  CASE t.k = "obj"   -> TObj(t.ks, [i \in DOMAIN t.xs |-> Optimize(t.xs[i], e)])
    [] t.k = "union" -> OptUnion(t, e)
    [] t.k = "opt"   -> LET x == Optimize(t.xs[1], e) IN TOpt(IF x.k = "opt" THEN x.xs[1] ELSE x)
    [] t.k \in {"list", "dict"} -> N(t.k, "", {}, <<Optimize(t.xs[1], e)>>, <<>>)
    [] t.k = "litover" -> TStr
    [] t.k = "lit"   -> IF t.ls = {} THEN TStr ELSE t
    [] OTHER -> t                                        \* atoms, pseudo types, ptr (never followed)

\* members behind Optional and inside nested unions take part in the simplification (flatten of _optimize_union):
\* FlatOpt(S) = [ms: the members found, opt: an Optional was met on the way]
RECURSIVE FlatOpt(_)
FlatOpt(S) ==
  LET parts == {IF t.k = "opt" THEN [ms |-> FlatOpt({t.xs[1]}).ms, opt |-> TRUE]
                ELSE IF t.k = "union" THEN FlatOpt(Members(t))
                ELSE [ms |-> {t}, opt |-> FALSE] : t \in S}
  IN [ms |-> UNION {p.ms : p \in parts}, opt |-> \E p \in parts : p.opt]
OptUnion(u, e) ==
  LET fo    == FlatOpt(Members(u))
      hasOptMember == fo.opt
      ms    == Members(DUnionCtor(fo.ms))        \* items = DUnion(*items).types: one literal set (or str), no duplicates
      objs  == {t \in ms : t.k = "obj"}
      strs  == {t \in ms : (t.k = "pseudo" /\ t.n \in ToSet(e.reg)) \/ t = TStr}
      lists == {t \in ms : t.k = "list"}
      dicts == {t \in ms : t.k = "dict"}
      other0 == (ms \ (objs \cup strs \cup lists \cup dicts)) \cup (IF hasOptMember THEN {TNull} ELSE {})
      other1 == IF TInt \in other0 /\ TFloat \in other0 THEN other0 \ {TInt} ELSE other0
      mergedObj  == IF objs = {} THEN {} ELSE {MergeFieldSets(SetToSeq(objs))}
      mergedList == IF lists = {} THEN {} ELSE {TList(DUnionCtor({t.xs[1] : t \in lists}))}
      mergedDict == IF dicts = {} THEN {} ELSE {TDict(DUnionCtor({t.xs[1] : t \in dicts}))}
      strPart == IF TStr \in strs THEN {TStr}
                 ELSE IF strs = {} THEN {}
                 ELSE LET r == Resolve({t.n : t \in strs}, e.repl)
                      IN IF Cardinality(r) > 1 THEN {TStr} ELSE {TPseudo(CHOOSE x \in r : TRUE)}
      all == {Optimize(t, e) : t \in other1 \cup mergedObj \cup mergedList \cup mergedDict \cup strPart}
  IN IF Cardinality(all) > 1 THEN
        LET a1 == all \ {TUnknown}
            optional == TNull \in a1
            a2 == a1 \ {TNull}
            u2 == DUnionCtor(a2)
        IN IF u2.xs = <<>> THEN (IF optional THEN TNull ELSE TUnknown)   \* nothing but Unknown / Null
           ELSE IF optional THEN TOpt(Unwrap1(u2)) ELSE Unwrap1(u2)
     ELSE IF all = {} THEN TCrash                         \* (code) types[0] on an empty list
     ELSE CHOOSE x \in all : TRUE

\* ----------------------------------------------------- MetadataGenerator.generate
Generate(samples, e) ==
  Optimize(MergeFieldSets([i \in DOMAIN samples |-> Convert(samples[i], e)]), e)
=============================================================================

#!/usr/bin/env python3
"""Regenerates MANIFEST.json from the table below (single source of truth for what is claimed)."""
import json, os
HERE = os.path.dirname(os.path.dirname(os.path.abspath(__file__)))
props = [json.loads(l) for l in open(os.path.join(HERE, "properties.jsonl"))]

CLAIMS = {
 # id: (design section, technique, level text, level note)
}

def claim(pid, ref, technique, text, note):
    CLAIMS[pid] = (ref, technique, text, note)

INFER_NOTE = ("Trusted: TLC 1.8.0 + CommunityModules Json/IOUtils; harness/project.py (projection of IR objects to abstract nodes); "
              "third-party string parsers enter as logged acceptance tables; bounded universes as listed in evidence.coverage.exhaustive_parts; "
              "outside them only seeded random inputs.")
claim("C01", "5/C01", "TLA+ spec (Infer/JsonTypes) model-checked with TLC; TLC-enumerated sample lists replayed on the real generator; recorded traces validated by TLC (Trace_Infer: Inhabits)",
      "TLC checks Sound (every sample inhabits the inferred type) on the inference state machine for all bounded sample lists; every enumerated list and seeded random inputs are run through the real code and TLC evaluates Inhabits on each recorded result.",
      INFER_NOTE)
claim("C02", "5/C02", "TLA+ spec model-checked with TLC (TightInv) + TLC trace validation of real results (Tight with kind routing)",
      "TLC checks tightness of every inferred position w.r.t. the values routed to it, on the model exhaustively and on every recorded result of the real generator.", INFER_NOTE)
claim("C07", "5/C07", "TLA+ state machine feeds samples in every order / with repetition (TLC, OrderFree); all permutations replayed on the code and compared canonically by TLC",
      "Order and repetition independence is an invariant of the Feed/FeedAgain state machine; for each enumerated multiset the real generator is run on all permutations and duplicated variants and TLC compares canonical results.", INFER_NOTE)
claim("C08", "5/C08", "TLA+ NF predicate + Optimize transcription model-checked with TLC (Normal, Total, Idempotent); recorded optimize_type results validated by TLC",
      "Normal form, totality and idempotence are TLC invariants over all bounded inputs; the real optimize_type / generate results are judged by the same NF predicate in TLC.", INFER_NOTE)
claim("C13", "5/C13", "TLA+ DictLike predicate; TLC invariant DictIffInv over dict-option environments; recorded results validated by TLC (walk of samples along types)",
      "For every object occurrence in the samples TLC checks 'typed as mapping iff DictLike' on the model for all bounded inputs x option environments and on every recorded real result.", INFER_NOTE)

claim("C05", "5/C05", "TLA+ closure-loop state machine model-checked for all similarity relations (safety + liveness) with TLC; each relation replayed on merge_models via a table comparator; traces validated by TLC (Components, pointer consistency)",
      "TLC proves on the model that the group-closure loop terminates with exactly the connected components for every relation on <=6 models and that the graph traversal which replaced it in the code gives the same groups in the same order; every relation, comparator boundary cases and random inputs are run through the real merge_models and TLC recomputes similarity, components, field unions, untouched models and pointer bookkeeping from the logged graphs.",
      INFER_NOTE)
claim("C09", "5/C09", "TLA+ registry state machine (StrTypes) model-checked with TLC; TLC-enumerated string grammar and registry op sequences replayed on the real registry/parsers; traces validated by TLC (first-match, covering, round trip)",
      "Detection order, covering of resolve(), disabled / removed types (also after repeated registration) are TLC invariants of the registry state machine; the real registry is driven through every enumerated operation sequence and the real parsers over the enumerated grammar; TLC checks first-match / covering / round-trip clauses on the logged tables. The round-trip clause is an equality of two logged values (model contributes only the grammar and protocol).",
      INFER_NOTE)

MOD_NOTE = ("Trusted: TLC 1.8.0 + CommunityModules; harness/loadmod.py (exec of the emitted text, framework introspection, projection of typing objects "
            "to annotation terms); CPython 3.12 / typing / pydantic.v1 / attrs / dataclasses as ground truth for loads/parses/constructs; a stub sqlmodel package; "
            "prepare_label results enter as a logged label table (its injectivity/recoverability is C11). Inputs: seeded generators listed in evidence.coverage.rule.")
claim("C03", "5/C03", "TLA+ loader model (Render.tla: class-body name lookup, NoShadow, UniqueInScope) evaluated by TLC on the projected emitted module, with the real interpreter (ast.parse, exec, get_type_hints) as ground truth",
      "Every emitted module of the explored inputs is parsed, executed and its hints resolved; TLC evaluates identifier, uniqueness, shadowing and one-class-per-model predicates on the projected module. Nested layout is judged only on tree-shaped graphs, as the statement says.", MOD_NOTE)
claim("C04", "5/C04", "independent rendering of the model graph in TLA+ (Render!Ann, RenderModel, CanonA = typing normal form) compared by TLC with the introspected classes of the executed module",
      "TLC computes, from the logged model graph and options, the class table the inferred graph denotes (python name, JSON key, canonical annotation, default kind) and compares it field by field with what pydantic/attrs/dataclasses/typing report for the executed module.", MOD_NOTE)
claim("C10", "5/C10", "TLA+ literal rule (LitMay / must / exact-set per list-depth position) evaluated by TLC on samples + evaluated annotations of the loaded module",
      "For every string position TLC derives the plain strings observed from the samples and the Literal sets found at that depth of the evaluated annotation, and checks may/must/exact-set/none clauses; driver covers counts 0..17, lengths around 20, max 0..16, all frameworks, quote/backslash/newline/comma/non-BMP content.", MOD_NOTE)
claim("C11", "5/C11", "TLA+ predicates Injective / Recoverable / class-name clauses with the domain predicate InDomain in the spec; evaluated by TLC on loaded field tables",
      "Per emitted class TLC checks that distinct keys gave distinct fields and that the recovered JSON keys (pydantic alias / original-name metadata) are exactly the model's keys, for key sets over a wide alphabet; out-of-domain key sets are evaluated under separate clause names and matched against known_findings.json.", MOD_NOTE)
claim("C12", "5/C12", "flat and nested renderings of the same input loaded and compared by TLC (ClassTable equality, once, root-first, placement under the referrer)",
      "Each tree-shaped input is rendered in both layouts; TLC checks each model emitted exactly once per layout, root first in flat, every nested class placed inside a class that references it, and equal class tables (fields, canonical annotations, defaults).", MOD_NOTE)
claim("C18", "5/C18", "TLA+ converter-path semantics (Render!HasPath, ExpectedP) + transcription of get_string_field_paths / _process_string_field_value (Conv.tla) model-checked on every type shape (MC_Conv) and replayed on the real functions; TLC evaluates instances constructed from the samples",
      "Generated attrs/dataclass classes are instantiated from each sample; TLC computes from the inferred field type which leaves must be converted (single pseudo-typed leaf under Optional/List/Dict) and compares the instance's projected values with the expected ones (converted via the logged parse table, None kept, others untouched).", MOD_NOTE)

CLI_NOTE = ("Trusted: TLC 1.8.0; harness/record.py (run-time wrappers on file loaders, validate, set_args, generate, generate_code, open, write, print; "
            "guard J2M_VERIF) and harness/drive_cli.py (materialisation of plans as files + argv, the option table Opts(argv), library-side rendering); "
            "arguments are loaded in command-line order (-m and -l alike), as C16 states; subprocess runs get a strict UTF-8 stdout.")
claim("C16", "5/C16", "TLA+ state machine of the CLI process (Cli.tla) model-checked with TLC (Assembled); TLC-enumerated plans materialised and run through the real main(); recorded event traces validated against Cli.tla by TLC",
      "Every fault-free plan (splits of the samples over files, lookups, repeated -m, -l, same file with two lookups) is run for real; TLC checks that each generate() call received exactly Assemble(plan) and that stdout / the -o file (after the header) equal the library pipeline's text for the same samples and mapped options, in-process and as an OS subprocess.", CLI_NOTE)
claim("C17", "5/C17", "TLA+ state machine of the CLI process with an explicit fault choice, model-checked with TLC (Atomic, Reports, Complete, OnlyWriteAfterRender, termination); every plan executed for real and its recorded trace validated against the state machine by TLC",
      "All fault kinds x position x output situations are enumerated by TLC; each is materialised (missing/malformed files, wrong lookups, non-object samples, non-string keys, bad policy, bad framework/generator combination, raising generator, unwritable target) and run through the real main() with recording wrappers and as a subprocess; TLC checks status, no code printed, output untouched, and that the output file is opened only after rendering (caught even when no fault hits the window).", CLI_NOTE)
claim("C19", "5/C19", "TLA+ lexer of raw triple-quoted strings + the code's escaping (Header.tla) model-checked for every short command text; observed headers lexed by TLC, ast as ground truth; preamble placement clauses",
      "TLC proves that the escaped command text keeps the header literal intact for every text of <=6 characters over {quote, backslash, newline, ASCII, non-ASCII}; each enumerated text is put on a real command line and TLC lexes the header that was really emitted while ast.parse gives the ground truth; preambles (docstrings, triple quotes, backslashes, blank) are checked for once / after imports / before classes / blank no-op.", CLI_NOTE)

SES_NOTE = ("Trusted: TLC 1.8.0; harness/drive_session.py (cooperative scheduler gating real threads at Context.__enter__, every "
            "AbsoluteModelRef.to_typing_code and Context.__exit__; events recorded under one lock with a global sequence number); step counts K/F of "
            "the jobs are measured on the real code and fed to the model; fresh-process references for C14.")
claim("C06", "5/C06", "2-safety by self-composition in TLA+ (Order.tla: two runs with independent set-iteration orders), model-checked with TLC; PYTHONHASHSEED sweep of the real CLI in fresh processes and forced iteration orders, equality judged by TLC (Trace_Order)",
      "TLC proves that merging in registration order makes the ordered result independent of set iteration order (and refutes the unsorted variant); inputs reaching every hash-ordered site are run through the real CLI under 6-16 hash seeds and with forced ModelMeta iteration orders; all outputs of one input must be byte-identical minus the timestamp line.",
      "Trusted: TLC 1.8.0; the timestamp and command lines of the header are masked; the sites (merge groups, pointer sets, literal sets, original names) are reached by a seeded generator, not proved exhaustive.")
claim("C14", "5/C14", "TLA+ state machine of the hidden process state (Session.tla: context save/restore around renders, failing renders) model-checked over all call histories; histories replayed in one process and validated against the state machine by TLC",
      "TLC enumerates every history of <=4 calls (nested DAG / tree renders, renders failing after 1 or 2 context reads, re-renders of an earlier registry for another framework and layout) and checks CtxRestored/SoloEq; each history is replayed in one process, every context read and exit is recorded, and TLC checks that each call saw only its own context, restored it, left the default registry alone and produced the text a fresh process produces.", SES_NOTE)
claim("C15", "5/C15", "TLA+ state machine with threads (Session.tla) model-checked for every interleaving (thread-local context: SoloEq; shared-context variant refuted); TLC-enumerated interleavings forced on real threads by a cooperative scheduler; traces validated against the state machine by TLC",
      "Every interleaving of two (thorough: three) threads, and of two whole pipelines with their build steps (merge_models, every pair comparison, every group merge), is explored on the model; each enumerated schedule is imposed on real threads at the spec's yield points and TLC follows the recorded events action by action (drift 0) while checking that every read saw the thread's own context and every output equals the solo output; plus free-running 2-8 threads under a 1e-6 switch interval and a call from a fresh worker thread.", SES_NOTE)

checks = []
for pid, (ref, tech, text, note) in sorted(CLAIMS.items()):
    checks.append({
        "property_id": pid,
        "quick_cmd": "./check %s --tier quick" % pid,
        "thorough_cmd": "./check %s --tier thorough" % pid,
        "evidence_file": "/verif/evidence/%s.json" % pid,
        "replay_cmd_template": "./check %s --replay {path}" % pid,
        "engine": "tlc",
        "level_claimed": {"category": "model_checking", "text": text, "design_ref": "DESIGN.md " + ref},
        "level_note": note,
        "technique": tech,
    })
na = [{"property_id": p["id"], "reason": "check not built yet (work in progress; planned in DESIGN.md section 5)"}
      for p in props if p["id"] not in CLAIMS]
assert not na or True
m = {
 "version": 1,
 "setup_cmd": "true",
 "hooks": {"guard": "J2M_VERIF",
           "enable": "J2M_VERIF=1 (set by ./check): harness/record.py wraps library functions at run time; /repo carries no hook code",
           "baseline_off_cmd": "cd /repo && /venv/bin/python -m pytest -ra -q -p no:cacheprovider --timeout=900 --continue-on-collection-errors",
           "source_commits": [], "add_only": True},
 "engines": [{"name": "tlc", "path": "/verif/spec", "serves_properties": sorted(CLAIMS),
              "kind_free_text": "explicit TLA+ specification (spec/*.tla) checked with TLC; conformance by replaying TLC-enumerated behaviours on the code and validating recorded traces with TLC"}],
 "checks": checks,
 "notes": "Every check: (A) TLC model-checks the bounded instance, (B) TLC-enumerated behaviours are replayed on /repo's working tree, (C) recorded traces are validated by TLC. Exit 2 = machinery failure.",
 "not_applicable": na,
}
json.dump(m, open(os.path.join(HERE, "MANIFEST.json"), "w"), indent=1)
print("claimed:", sorted(CLAIMS), "pending:", [x["property_id"] for x in na])

#!/bin/sh
# tools/matrix.sh : run every seeded change and every mutant against the quick check(s) of its property, each in its own
# scratch worktree (J2M_REPO) so that /repo is never touched; writes selftest/MATRIX.txt
OUT=/verif/selftest/MATRIX.txt
: > $OUT
for d in /verif/seeded/C*; do
  id=$(basename $d)
  chk=${id%%-*}        # seeded/C07-2 is a change against property C07
  /verif/tools/mutant_wt.sh $d/patch.diff $chk 2>&1 | sed "s/^mutant=patch/seed=$id/" >> $OUT
done
while read name rest; do
  [ -n "$name" ] || continue
  checks=$(echo "$rest" | awk '{$NF=""; print}')
  /verif/tools/mutant_wt.sh /verif/selftest/mutants/$name.diff $checks >> $OUT 2>&1
done < /verif/selftest/mutants/REVERTS.txt
for m in percent_ge_to_gt:C05 number_ge_to_gt:C05 open_before_generate:C17 status_swallow:C17 extend_to_assign:C16 cli_no_anchor:C13 preamble_before_imports:C19 conv_dict_arg0:C18 conv_dict_token:C18 conv_literal_raises:C18; do
  /verif/tools/mutant_wt.sh /verif/selftest/mutants/${m%%:*}.diff ${m##*:} >> $OUT 2>&1
done
echo MATRIX-DONE >> $OUT

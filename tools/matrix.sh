#!/bin/sh
# tools/matrix.sh [parallel] : run every seeded change and every mutant against the quick check(s) of its property, each in its own
# scratch worktree (J2M_REPO) so that /repo is never touched; writes selftest/MATRIX.txt (sorted)
P=${1:-3}
OUT=${MATRIX_OUT:-/verif/selftest/MATRIX.txt}
JOBS=$(mktemp)
for d in /verif/seeded/C*; do
  id=$(basename $d)
  chk=${id%%-*}        # seeded/C07-2 is a change against property C07
  echo "seed=$id $d/patch.diff $chk" >> $JOBS
done
while read name rest; do
  [ -n "$name" ] || continue
  checks=$(echo "$rest" | awk '{$NF=""; print}')
  for c in $checks; do echo "mutant=$name /verif/selftest/mutants/$name.diff $c" >> $JOBS; done
done < /verif/selftest/mutants/REVERTS.txt
for m in percent_ge_to_gt:C05 number_ge_to_gt:C05 open_before_generate:C17 status_swallow:C17 extend_to_assign:C16 cli_no_anchor:C13 preamble_before_imports:C19 conv_dict_arg0:C18 conv_dict_token:C18 conv_literal_raises:C18; do
  echo "mutant=${m%%:*} /verif/selftest/mutants/${m%%:*}.diff ${m##*:}" >> $JOBS
done
export MATRIX_OUT_TMP=$OUT.tmp
: > $OUT.tmp
xargs -P $P -L 1 sh -c '/verif/tools/mutant_wt.sh "$1" "$2" 2>&1 | sed "s/^mutant=[^ ]*/$0/" | cut -c1-200 >> $MATRIX_OUT_TMP' < $JOBS
sort $OUT.tmp > $OUT
rm -f $OUT.tmp $JOBS
echo MATRIX-DONE >> $OUT

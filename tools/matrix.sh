#!/bin/sh
# tools/matrix.sh : run every seeded change and every revert mutant against the quick check(s) of its property; write selftest/MATRIX.txt
OUT=/verif/selftest/MATRIX.txt
: > $OUT
for d in /verif/seeded/C*; do
  id=$(basename $d)
  /verif/tools/seed_run.sh $id $id >> $OUT 2>&1
done
while read name checks commit; do
  [ -n "$name" ] || continue
  /verif/tools/mutant_run.sh /verif/selftest/mutants/$name.diff $checks >> $OUT 2>&1
done < /verif/selftest/mutants/REVERTS.txt
for m in percent_ge_to_gt:C05 number_ge_to_gt:C05 open_before_generate:C17 status_swallow:C17 extend_to_assign:C16 cli_no_anchor:C13 preamble_before_imports:C19; do
  /verif/tools/mutant_run.sh /verif/selftest/mutants/${m%%:*}.diff ${m##*:} >> $OUT 2>&1
done
git -C /repo status --short >> $OUT
echo MATRIX-DONE >> $OUT

#!/bin/sh
# tools/seed_run.sh <seed-dir-name> <check id>... : apply seeded/<name>/patch.diff to /repo, run the quick checks, undo.
NAME="$1"; shift
git -C /repo diff --quiet || { echo "/repo dirty"; exit 2; }
git -C /repo apply /verif/seeded/$NAME/patch.diff || exit 2
for id in "$@"; do
  /verif/check $id --tier quick > /tmp/seedrun.$NAME.$id.log 2>&1; rc=$?
  echo "seed=$NAME check=$id exit=$rc $(grep -c '^VIOLATION' /tmp/seedrun.$NAME.$id.log) violation lines; $(grep '^VIOLATION' /tmp/seedrun.$NAME.$id.log | head -1)"
done
git -C /repo checkout -- .

#!/bin/sh
# tools/mutant_wt.sh <diff> <check id>... : apply a diff in a scratch worktree of /repo HEAD and run the quick checks against
# THAT tree (J2M_REPO); /repo itself is not touched, so this is safe while other runs use /repo.
D="$1"; shift
N=$(basename "$D" .diff)
WT=/tmp/mwt/$N.$$
L=/tmp/mwt.$N.$$
rm -rf "$WT"; git -C /repo worktree prune
git -C /repo worktree add -q "$WT" HEAD || exit 2
git -C "$WT" apply "$D" 2>/dev/null || { git -C /repo worktree remove --force "$WT"; echo "mutant=$N does not apply"; exit 2; }
for id in "$@"; do
  J2M_REPO="$WT" /verif/check $id --tier quick > $L.$id.log 2>&1; rc=$?
  echo "mutant=$N check=$id exit=$rc $(grep -c '^VIOLATION' $L.$id.log) violation lines; $(grep '^VIOLATION' $L.$id.log | head -1)"
done
git -C /repo worktree remove --force "$WT"

#!/usr/bin/env python3
"""tools/mkmutant.py NAME FILE OLD NEW : writes selftest/mutants/NAME.diff (a one-place edit of /repo/FILE), leaves /repo clean."""
import subprocess, sys
name, path, old, new = sys.argv[1:5]
full = "/repo/" + path
s = open(full).read()
assert s.count(old) == 1, (s.count(old), old)
open(full, "w").write(s.replace(old, new))
d = subprocess.run(["git", "-C", "/repo", "diff"], stdout=subprocess.PIPE, text=True).stdout
subprocess.check_call(["git", "-C", "/repo", "checkout", "--", "."])
open("/verif/selftest/mutants/%s.diff" % name, "w").write(d)
print("wrote", name, len(d.splitlines()), "lines")

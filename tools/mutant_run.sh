#!/bin/sh
# tools/mutant_run.sh <diff> <check id>... : apply a diff to /repo, run the quick checks, undo.
D="$1"; shift
git -C /repo diff --quiet || { echo "/repo dirty"; exit 2; }
git -C /repo apply "$D" || exit 2
for id in "$@"; do
  /verif/check $id --tier quick > /tmp/mutrun.$id.log 2>&1; rc=$?
  echo "mutant=$(basename $D) check=$id exit=$rc $(grep -c '^VIOLATION' /tmp/mutrun.$id.log) violation lines; $(grep '^VIOLATION' /tmp/mutrun.$id.log | head -1)"
done
git -C /repo checkout -- .

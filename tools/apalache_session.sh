#!/bin/sh
# tools/apalache_session.sh : the three proof obligations of spec/MC_SessionApa.tla (supplementary; about 1 minute)
cd /verif/spec || exit 2
OUT=$(mktemp -d)
rc=0
for args in "--init=Init --inv=IndInv --length=0" "--init=IndInit --inv=IndInv --length=1" "--init=IndInit --inv=Safety --length=0"; do
  r=$(timeout 1500 apalache-mc check $args --out-dir=$OUT MC_SessionApa.tla 2>&1 | grep "The outcome is" | sed 's/ *I@.*//')
  echo "$args : $r"
  echo "$r" | grep -q NoError || rc=1
done
rm -rf $OUT
exit $rc

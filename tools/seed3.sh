#!/bin/sh
# tools/seed2.sh <ID> [checks...]: verify a round-3 seed from /tmp/seedout/<ID>r3, store it as seeded/<ID>-3, run the quick checks against it
ID=$1; shift
SRC=/tmp/seedout/${ID}r3
R=$(/verif/tools/seed_verify.sh ${ID}r3 $SRC/patch.diff $SRC/demo.py)
echo "$R"
echo "$R" | grep -q '"demo_exit_clean": 0, "demo_exit_mutant": 1, "tests_with_change": "428 passed' || { echo "SEED ${ID}r3 NOT VALID"; exit 1; }
mkdir -p /verif/seeded/$ID-3 && cp $SRC/patch.diff $SRC/demo.py $SRC/notes.md /verif/seeded/$ID-3/
git -C /repo worktree remove --force /tmp/wt/${ID}r3 2>/dev/null
for c in ${@:-$ID}; do /verif/tools/mutant_wt.sh /verif/seeded/$ID-3/patch.diff $c | sed "s/^mutant=patch/seed=$ID-3/" | cut -c1-170; done

#!/usr/bin/env python3
"""tools/matrix_table.py : rewrite the table between the MATRIX markers of DESIGN.md from selftest/MATRIX.txt"""
import re
rows = []
for line in open("/verif/selftest/MATRIX.txt"):
    m = re.match(r"(seed|mutant)=(\S+) check=(\S+) exit=(\d+) (\d+) violation lines; (?:VIOLATION property=\S+ replay=\S+ clause=(\S+))?", line)
    if m:
        kind, name, chk, ex, n, clause = m.groups()
        rows.append((kind, name, chk, ex, clause or "-"))
    elif "does not apply" in line:
        rows.append((line.split("=")[0], line.split("=")[1].split()[0], "-", "does not apply", "-"))
def key(r):
    kind, name = r[0], r[1]
    return (0 if kind == "seed" else 1, name)
rows.sort(key=key)
out = ["| change | check | exit | first failing clause |", "|---|---|---|---|"]
for kind, name, chk, ex, clause in rows:
    out.append("| %s %s | %s quick | %s | %s |" % (kind, name, chk, ex, clause))
table = "\n".join(out)
p = "/verif/DESIGN.md"
s = open(p).read()
a, b = "<!-- MATRIX-BEGIN -->", "<!-- MATRIX-END -->"
assert a in s and b in s
s = s[:s.index(a) + len(a)] + "\n" + table + "\n" + s[s.index(b):]
open(p, "w").write(s)
print(len(rows), "rows;", sum(1 for r in rows if r[3] == "1"), "detected")

#!/bin/sh
# tools/allquick.sh [seed]: run every quick check once with the given VERIF_SEED; print one line per check
SEED=${1:-0}
for i in 01 02 03 04 05 06 07 08 09 10 11 12 13 14 15 16 17 18 19; do
  s=$(date +%s)
  VERIF_SEED=$SEED /verif/check C$i --tier quick > /tmp/allq.$SEED.C$i.log 2>&1; rc=$?
  echo "seed=$SEED C$i exit=$rc $(( $(date +%s) - s ))s $(grep -c '^VIOLATION' /tmp/allq.$SEED.C$i.log) viol; $(tail -1 /tmp/allq.$SEED.C$i.log | cut -c1-150)"
done

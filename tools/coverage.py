#!/venv/bin/python
"""Runs every MC_* instance once with `-coverage 1` (small constants) and lists actions / invariant antecedents never exercised."""
import re, sys
sys.path.insert(0, "/verif")
from harness import tlc
from harness import drive_infer as DI, drive_registry as DR, drive_cli as DC, drive_header as DH, drive_session as DSS, drive_order as DO, drive_layout as DL, drive_strtypes as DS, drive_module as DM
K = {j: 4 for j in ("j1", "j2", "f1", "f2", "r1", "r2", "c1", "c2", "c3")}; K["j3"] = 2
F = {"f1": 1, "f2": 2}
runs = [
 ("MC_Infer", DI.CFG_INFER % (2, "FALSE", "small")),
 ("MC_Registry", DR.CFG_REGISTRY % ("tiny1", "FALSE")),
 ("MC_Closure", DR.CFG_CLOSURE % (4, "FALSE")),
 ("MC_StrTypes", DS.CFG_STR % 2),
 ("MC_Cli", DC.CFG_CLI % (2, "FALSE", "FALSE")),
 ("MC_Header", DH.CFG_HEADER % 4),
 ("MC_Session", DSS.CFG_SESSION % ("FALSE", "FALSE", "t2", DSS.kcfg(K, F))),
 ("MC_Session", DSS.CFG_SESSION % ("FALSE", "FALSE", "hist3", DSS.kcfg(K, F))),
 ("MC_Order", DO.CFG_ORDER % "TRUE"),
 ("MC_Layout", DL.CFG_LAYOUT % (3, "FALSE", "FALSE")),
 ("MC_Names", DO.CFG_NAMES % 3),
 ("MC_Lit", DM.CFG_LIT % 17),
 ("MC_Labels", DM.CFG_LABELS % 2),
]
for mod, cfg in runs:
    cfg = cfg.replace("Emit = TRUE", "Emit = FALSE")
    try:
        r = tlc.run_tlc(mod, cfg, args=("-coverage", "1"), timeout=150)
    except tlc.MachineryError:
        print("%-12s coverage run exceeded 150 s (recursive operators make -coverage very slow); skipped" % mod, flush=True)
        continue
    acts = re.findall(r"<(\w+) line \d+, col \d+ to line \d+, col \d+ of module (\w+)>: (\d+):(\d+)", r["out"])
    zero = sorted({a for a, m, x, y in acts if int(y) == 0 and int(x) == 0})
    ok = "No error" in r["out"]
    print("%-12s ok=%s actions=%d never-taken=%s" % (mod, ok, len({a for a, *_ in acts}), zero), flush=True)

#!/bin/sh
# tools/seed_verify.sh <name> <patch.diff> <demo.py>: confirm a seeded change in a scratch worktree
# (tests pass with it, demo fails with it and passes without it).  Prints a JSON summary line.
set -u
NAME="$1"; PATCH="$2"; DEMO="$3"
WT=/tmp/wtv/$NAME
rm -rf "$WT"; git -C /repo worktree prune
git -C /repo worktree add -q "$WT" HEAD || exit 2
cd "$WT"
PYTHONPATH="$WT" /venv/bin/python "$DEMO" >/tmp/wtv/$NAME.clean.log 2>&1; CLEAN=$?
git apply "$PATCH" || { echo "patch does not apply"; git -C /repo worktree remove --force "$WT"; exit 2; }
PYTHONPATH="$WT" /venv/bin/python "$DEMO" >/tmp/wtv/$NAME.mut.log 2>&1; MUT=$?
TESTS=$(PYTHONPATH="$WT" timeout 900 /venv/bin/python -m pytest -q -p no:cacheprovider -n 12 2>&1 | tail -1)
cd /
git -C /repo worktree remove --force "$WT"
echo "{\"name\": \"$NAME\", \"demo_exit_clean\": $CLEAN, \"demo_exit_mutant\": $MUT, \"tests_with_change\": \"$TESTS\"}"

#!/venv/bin/python
"""Pretty-print a replay file (input + projected graphs)."""
import json, sys
def show(t, S=None):
    k = t["k"]
    if k == "ptr": return "ptr" + t["n"]
    if k in ("opt", "list", "dict", "union"): return k + "(" + ",".join(show(x, S) for x in t["xs"]) + ")"
    if k == "obj": return "{" + ",".join(a + ":" + show(b, S) for a, b in zip(t["ks"], t["xs"])) + "}"
    if k == "lit": return "lit" + str(t["ls"])
    if k == "pseudo": return t["n"]
    if k == "str" and t["n"]: return "str:" + t["n"]
    return k
c = json.load(open(sys.argv[1]))
print("clause", c["clause"], c.get("tlc_verdict"))
print("input", json.dumps(c["input"]))
for e in c["trace"]["events"]:
    print("--", e["ev"], e.get("exc", ""))
    for key in ("before", "after"):
        if e.get(key) and "models" in e[key]:
            for m in e[key]["models"]:
                print("   ", key[0].upper(), m["ix"], show(m["t"]), m.get("inc"))
    for key in ("result", "meta", "arg"):
        if e.get(key): print("   ", key, show(e[key]))
    if e.get("samples"): print("    samples", [show(s) for s in e["samples"]])
    if e.get("replaces"): print("    replaces", e["replaces"], "roots", e.get("roots"))
